#!/bin/sh
# usage: tools/at_commit.sh <rev> <command...>
# Runs <command> with VERIF_REPO pointing at an export of /repo at <rev> (scratch dir under /var/tmp, removed afterwards).
set -e
rev="$1"; shift
d="$(mktemp -d /var/tmp/hszinc-rev-XXXXXX)"
trap 'rm -rf "$d"' EXIT
mkdir -p "$d/repo"
git -C /repo archive "$rev" | tar -x -C "$d/repo"
VERIF_REPO="$d/repo" "$@"
