#!/venv/bin/python
"""Evaluate a seeded change:  tools/seed_eval.py <dir with patch.diff, demo.py, meta.json> [--checks C01,C04] [--tier quick]

1. copies /repo's working tree to a scratch dir under /var/tmp and applies patch.diff there;
2. the repository's own suite must still pass there (tools/baseline.py);
3. demo.py must pass against /repo and fail against the patched copy;
4. runs the named checks (default: the property in meta.json) against the patched copy (VERIF_REPO) and reports
   which of them print a VIOLATION line.
/repo itself is never modified; the scratch copy is removed at the end."""
import argparse
import json
import os
import shutil
import subprocess
import sys
import tempfile
import time

HERE = os.path.dirname(os.path.abspath(__file__))
ROOT = os.path.dirname(HERE)


def sh(cmd, env=None, cwd=None, timeout=3600):
    p = subprocess.run(cmd, shell=isinstance(cmd, str), env=env, cwd=cwd, stdout=subprocess.PIPE, stderr=subprocess.STDOUT,
                       text=True, timeout=timeout, errors='replace')
    return p.returncode, p.stdout


def main():
    ap = argparse.ArgumentParser()
    ap.add_argument('dir')
    ap.add_argument('--checks', default=None)
    ap.add_argument('--tier', default='quick')
    ap.add_argument('--seed', default='1')
    ap.add_argument('--skip-suite', action='store_true')
    a = ap.parse_args()
    d = os.path.abspath(a.dir)
    meta = json.load(open(os.path.join(d, 'meta.json')))
    checks = a.checks.split(',') if a.checks else [meta['property']]
    scratch = tempfile.mkdtemp(prefix='hszinc-seed-', dir='/var/tmp')
    out = {'dir': d, 'property': meta['property']}
    try:
        repo = os.path.join(scratch, 'repo')
        sh(['rsync', '-a', '--exclude', '.git', '--exclude', '__pycache__', '/repo/', repo + '/'])
        rc, o = sh(['patch', '-p1', '-s', '-i', os.path.join(d, 'patch.diff')], cwd=repo)
        out['patch_applies'] = rc == 0
        if rc != 0:
            out['patch_output'] = o[-500:]
            print(json.dumps(out, indent=1))
            return 2
        env = dict(os.environ, PYTHONDONTWRITEBYTECODE='1')
        if not a.skip_suite:
            rc, o = sh(['/venv/bin/python', os.path.join(HERE, 'baseline.py')], env=dict(env, VERIF_REPO=repo))
            out['suite_still_passes'] = rc == 0
            out['suite'] = o.strip().split('\n')[:3]
        rc0, o0 = sh(['/venv/bin/python', os.path.join(d, 'demo.py')], env=dict(env, HSZINC_REPO='/repo'), cwd='/var/tmp', timeout=600)
        rc1, o1 = sh(['/venv/bin/python', os.path.join(d, 'demo.py')], env=dict(env, HSZINC_REPO=repo), cwd='/var/tmp', timeout=600)
        out['demo_passes_on_repo'] = rc0 == 0
        out['demo_fails_on_patched'] = rc1 != 0
        if rc0 != 0:
            out['demo_repo_output'] = o0[-400:]
        out['detected_by'] = {}
        for c in checks:
            t0 = time.time()
            rc, o = sh(['/venv/bin/python', '-m', 'vf', 'check', c, '--tier', a.tier],
                       env=dict(env, VERIF_REPO=repo, VERIF_SEED=a.seed, VERIF_SCRATCH_OUT=os.path.join(scratch, 'out')), cwd=ROOT)
            viol = [l for l in o.split('\n') if l.startswith('VIOLATION')]
            stages = [l.strip()[:220] for l in o.split('\n') if l.strip().startswith('stage=')]
            out['detected_by'][c] = {'exit': rc, 'violations': len(viol), 'wall_s': round(time.time() - t0, 1), 'first': stages[:2]}
            if rc == 2:
                out['detected_by'][c]['harness_error'] = o[-600:]
    finally:
        shutil.rmtree(scratch, ignore_errors=True)
    print(json.dumps(out, indent=1))
    ok = out.get('demo_passes_on_repo') and out.get('demo_fails_on_patched') and out.get('suite_still_passes', True)
    return 0 if ok else 1


if __name__ == '__main__':
    sys.exit(main())
