#!/venv/bin/python
"""Evaluate a property-PRESERVING change (false-alarm probe):
    tools/benign_eval.py <dir with patch.diff, meta.json> [--checks C01,C04 | --checks auto] [--tier quick] [--seed 1]

1. copies /repo's working tree to a scratch dir under /var/tmp and applies patch.diff there;
2. the repository's own suite must still pass there (tools/baseline.py);
3. runs the checks against the patched copy (VERIF_REPO).  'auto' = the property in meta.json plus every check whose
   anchor files the patch touches.  Every check must stay quiet: a VIOLATION line or a non-zero exit is either a false
   alarm of the check or a change that does break a property - to be adjudicated by hand.
/repo itself is never modified; the scratch copy is removed at the end."""
import argparse
import json
import os
import re
import shutil
import subprocess
import sys
import tempfile
import time

HERE = os.path.dirname(os.path.abspath(__file__))
ROOT = os.path.dirname(HERE)

BY_FILE = {
    'zincdumper.py': ['C01', 'C07', 'C08', 'C10'],
    'zincparser.py': ['C01', 'C03', 'C06', 'C07', 'C08', 'C09', 'C10'],
    'jsondumper.py': ['C02', 'C07', 'C08', 'C10'],
    'jsonparser.py': ['C02', 'C05', 'C06', 'C07', 'C09', 'C10'],
    'parser.py': ['C01', 'C02', 'C06', 'C09'],
    'dumper.py': ['C01', 'C02', 'C07'],
    'grid.py': ['C01', 'C10', 'C13', 'C14', 'C15', 'C19'],
    'grid_filter.py': ['C11', 'C12', 'C13'],
    'sortabledict.py': ['C14', 'C16'],
    'metadata.py': ['C14', 'C16', 'C01'],
    'datatypes.py': ['C01', 'C02', 'C19', 'C20'],
    'zoneinfo.py': ['C04', 'C17'],
    'version.py': ['C10', 'C18'],
    'pintutil.py': ['C20', 'C01'],
}


def sh(cmd, env=None, cwd=None, timeout=7200):
    p = subprocess.run(cmd, shell=isinstance(cmd, str), env=env, cwd=cwd, stdout=subprocess.PIPE, stderr=subprocess.STDOUT,
                       text=True, timeout=timeout, errors='replace')
    return p.returncode, p.stdout


def main():
    ap = argparse.ArgumentParser()
    ap.add_argument('dir')
    ap.add_argument('--checks', default='auto')
    ap.add_argument('--tier', default='quick')
    ap.add_argument('--seed', default='1')
    ap.add_argument('--skip-suite', action='store_true')
    a = ap.parse_args()
    d = os.path.abspath(a.dir)
    meta = json.load(open(os.path.join(d, 'meta.json')))
    patch = open(os.path.join(d, 'patch.diff')).read()
    files = sorted(set(re.findall(r'^\+\+\+ b/(\S+)', patch, re.M)))
    if a.checks == 'auto':
        checks = [meta['property']]
        for f in files:
            for c in BY_FILE.get(os.path.basename(f), []):
                if c not in checks:
                    checks.append(c)
    elif a.checks == 'all':
        checks = ['C%02d' % i for i in range(1, 21)]
    else:
        checks = a.checks.split(',')
    scratch = tempfile.mkdtemp(prefix='hszinc-benign-', dir='/var/tmp')
    out = {'dir': d, 'property': meta['property'], 'files': files}
    try:
        repo = os.path.join(scratch, 'repo')
        sh(['rsync', '-a', '--exclude', '.git', '--exclude', '__pycache__', '/repo/', repo + '/'])
        rc, o = sh(['patch', '-p1', '-s', '-i', os.path.join(d, 'patch.diff')], cwd=repo)
        out['patch_applies'] = rc == 0
        if rc != 0:
            out['patch_output'] = o[-500:]
            print(json.dumps(out, indent=1))
            return 2
        env = dict(os.environ, PYTHONDONTWRITEBYTECODE='1')
        if not a.skip_suite:
            rc, o = sh(['/venv/bin/python', os.path.join(HERE, 'baseline.py')], env=dict(env, VERIF_REPO=repo))
            out['suite_still_passes'] = rc == 0
            out['suite'] = o.strip().split('\n')[:3]
        out['checks'] = {}
        for c in checks:
            t0 = time.time()
            rc, o = sh(['/venv/bin/python', '-m', 'vf', 'check', c, '--tier', a.tier],
                       env=dict(env, VERIF_REPO=repo, VERIF_SEED=a.seed, VERIF_SCRATCH_OUT=os.path.join(scratch, 'out')), cwd=ROOT)
            viol = [l for l in o.split('\n') if l.startswith('VIOLATION')]
            stages = [l.strip()[:400] for l in o.split('\n') if l.strip().startswith('stage=')]
            out['checks'][c] = {'exit': rc, 'violations': len(viol), 'wall_s': round(time.time() - t0, 1), 'first': stages[:3]}
            if rc == 2:
                out['checks'][c]['harness_error'] = o[-800:]
    finally:
        shutil.rmtree(scratch, ignore_errors=True)
    out['quiet'] = all(v['exit'] == 0 for v in out['checks'].values())
    print(json.dumps(out, indent=1))
    return 0 if out['quiet'] and out.get('suite_still_passes', True) else 1


if __name__ == '__main__':
    sys.exit(main())
