#!/bin/sh
# usage: tools/quiet.sh "<seeds>" [checks...]   - runs the quick tier on /repo for several VERIF_SEED values in fresh processes
# (PYTHONHASHSEED=0) and reports every non-zero exit; used to show that the checks are quiet on the unchanged tree.
cd "$(dirname "$0")/.."
seeds="${1:-1 2 3}"; shift
checks="${*:-C01 C02 C03 C04 C05 C06 C07 C08 C09 C10 C11 C12 C13 C14 C15 C16 C17 C18 C19 C20}"
bad=0
for s in $seeds; do
  for c in $checks; do
    out=$(PYTHONHASHSEED=0 VERIF_SEED=$s /venv/bin/python -m vf check $c --tier quick 2>&1); rc=$?
    echo "seed=$s $(echo "$out" | tail -1)"
    if [ $rc -ne 0 ]; then bad=1; echo "  EXIT $rc"; echo "$out" | grep -a -A1 "VIOLATION\|HARNESS" | head -8; fi
  done
done
exit $bad
