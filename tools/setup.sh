#!/bin/sh
# Offline set-up of the verification machinery: everything is plain Python run by /venv/bin/python
# against /repo's working tree; the only third-party needs are hypothesis (in /venv) and, for the
# thorough tier of C09/C12, atheris (installed into /verif/.deps from the offline wheelhouse).
set -e
cd "$(dirname "$0")/.."
export PIP_NO_INDEX=1
/venv/bin/python -c 'import hypothesis' 2>/dev/null || \
  /venv/bin/pip install --no-index --find-links /opt/veriftools/wheels hypothesis
if ! PYTHONPATH=.deps /venv/bin/python -c 'import atheris' 2>/dev/null; then
  /venv/bin/pip install --no-index --find-links /opt/veriftools/wheels --target .deps atheris >/dev/null 2>&1 || \
    echo "setup: atheris not installable (thorough-tier fuzz campaigns will be skipped and say so)"
fi
/venv/bin/python -c 'import sys; sys.path.insert(0, "/repo"); import hszinc, hypothesis; print("setup ok: hszinc", hszinc.__version__, "hypothesis", hypothesis.__version__)'
