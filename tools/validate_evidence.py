#!/opt/veriftools/pyvenv/bin/python
"""Validate MANIFEST.json and every evidence/<id>.json against the schemas in /root/.vp (run with python3-vt: needs jsonschema)."""
import json, os, sys
import jsonschema
root = os.path.dirname(os.path.dirname(os.path.abspath(__file__)))
ms = json.load(open('/root/.vp/MANIFEST.schema.json'))
es = json.load(open('/root/.vp/EVIDENCE.schema.json'))
m = json.load(open(os.path.join(root, 'MANIFEST.json')))
jsonschema.validate(m, ms)
bad = 0
for c in m['checks']:
    p = os.path.join(root, c['evidence_file'])
    try:
        e = json.load(open(p))
        jsonschema.validate(e, es)
        assert e['property_id'] == c['property_id'] and e.get('violations', 0) == 0, 'property id / violations'
        print('%s ok  tier=%s evaluations=%d distinct_nontrivial=%d wall=%.0fs' % (
            c['property_id'], e['tier'], e['coverage']['evaluations'], e['coverage']['distinct_nontrivial'], e['wall_s']))
    except Exception as ex:
        bad += 1
        print('%s INVALID: %s' % (c['property_id'], str(ex)[:200]))
sys.exit(1 if bad else 0)
