#!/venv/bin/python
"""Import verified seeded changes produced by sub-agents (/tmp/out-<prop>/<n>/) into /verif/seeded/<prop>-<n>/.
usage: seed_import.py <result json of tools/seed_eval.py> ..."""
import json, os, shutil, sys
OFFSET = 0
ROUND = None
if '--round' in sys.argv:
    i = sys.argv.index('--round'); ROUND = int(sys.argv[i + 1]); del sys.argv[i:i + 2]
if '--offset' in sys.argv:
    i = sys.argv.index('--offset'); OFFSET = int(sys.argv[i + 1]); del sys.argv[i:i + 2]
ROOT = os.path.dirname(os.path.dirname(os.path.abspath(__file__)))
for rf in sys.argv[1:]:
    try:
        r = json.load(open(rf))
    except Exception:
        print('skip (unparseable)', rf); continue
    ok = r.get('patch_applies') and r.get('suite_still_passes') and r.get('demo_passes_on_repo') and r.get('demo_fails_on_patched')
    if not ok:
        print('skip (not confirmed)', rf); continue
    src = r['dir']
    sid = '%s-%d' % (r['property'], int(os.path.basename(src)) + OFFSET)
    dst = os.path.join(ROOT, 'seeded', sid)
    os.makedirs(dst, exist_ok=True)
    for f in ('patch.diff', 'demo.py'):
        shutil.copy(os.path.join(src, f), os.path.join(dst, f))
    meta = json.load(open(os.path.join(src, 'meta.json')))
    meta['id'] = sid
    meta['round'] = ROUND if ROUND is not None else (2 if OFFSET else 1)
    meta['origin'] = 'independent sub-agent given only the property text and a scratch worktree of /repo (HEAD incl. the fix: commits)'
    meta['confirmed'] = {
        'how': 'tools/seed_eval.py: patch applied to a scratch copy of /repo; tools/baseline.py (2830 pinned tests) on the copy; '
               'demo.py with HSZINC_REPO=/repo (must exit 0) and with HSZINC_REPO=<copy> (must exit non-zero)',
        'patch_applies': True, 'repo_suite_still_passes': True, 'demo_passes_on_repo': True, 'demo_fails_with_patch': True,
    }
    first = r.get('detected_by', {})
    meta['first_round_detection'] = dict((c, {'detected': v['exit'] == 1, 'wall_s': v['wall_s'], 'first_stage': (v['first'] or [''])[0][:160]})
                                         for c, v in first.items())
    json.dump(meta, open(os.path.join(dst, 'meta.json'), 'w'), indent=1, sort_keys=True)
    print('imported', sid)
