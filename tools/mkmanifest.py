#!/venv/bin/python
"""Regenerates /verif/MANIFEST.json from the table below (kept in one place so the manifest is always valid)."""
import json
import os
import subprocess

HERE = os.path.dirname(os.path.abspath(__file__))
ROOT = os.path.dirname(HERE)

ALL = ['C%02d' % i for i in range(1, 21)]

# property -> (technique, level text, level note, design ref)
BUILT = {
    'C18': ('exhaustive enumeration of version-string pairs/triples + hypothesis strings against an independent reference key',
            'All 864,900 ordered pairs over 930 version strings (padding x suffix) are compared with an independently written '
            'reference order for trichotomy, six-operator agreement, string operands on both sides, hash/set/dict behaviour, '
            'grammar-cache identity and nearest(); all triples over a 40/120-string subset for transitivity and congruence; plus '
            'seeded Hypothesis strings. Search, not proof: outside the enumerated universe only sampled.',
            'Trusts the reference key written from the module doc-string of hszinc/version.py; suffixes contain no newline.',
            'DESIGN.md 3/C18'),
}

NOT_YET = 'check not built yet in this session (planned, see DESIGN.md section 3); not claimed until it runs quiet on the unchanged tree'


def main():
    checks = []
    for pid in ALL:
        if pid not in BUILT:
            continue
        tech, text, note, ref = BUILT[pid]
        checks.append({
            'property_id': pid,
            'quick_cmd': '/venv/bin/python -m vf check %s --tier quick' % pid,
            'thorough_cmd': '/venv/bin/python -m vf check %s --tier thorough' % pid,
            'evidence_file': 'evidence/%s.json' % pid,
            'replay_cmd_template': '/venv/bin/python -m vf replay {path}',
            'engine': 'vf',
            'level_claimed': {'category': 'exploration', 'text': text, 'design_ref': ref},
            'level_note': note,
            'technique': tech,
        })
    try:
        commits = subprocess.check_output(
            ['git', '-C', '/repo', 'log', '--format=%h %s', '--grep=^hook:'], text=True).split('\n')
        commits = [c.split()[0] for c in commits if c.strip()]
    except Exception:
        commits = []
    m = {
        'version': 1,
        'setup_cmd': './tools/setup.sh',
        'hooks': {
            'guard': 'WIDESKY_HSZINC_VERIF',
            'enable': 'no source hooks are needed: checks import hszinc from /repo\'s working tree in-process '
                      '(sys.path[0]=/repo); the guard variable is reserved and unused',
            'baseline_off_cmd': '/venv/bin/python tools/baseline.py',
            'source_commits': commits,
            'add_only': True,
        },
        'engines': [{
            'name': 'vf', 'path': 'vf/',
            'serves_properties': sorted(BUILT),
            'kind_free_text': 'property-based testing / fuzzing harness: Hypothesis strategies and rule-based state machines, '
                              'deterministic exhaustive enumeration of small finite sub-domains, a harness-owned thread '
                              'scheduler, atheris campaigns; independent reference codecs/evaluators as oracles',
        }],
        'checks': checks,
        'notes': 'All checks: cwd=/verif, VERIF_SEED honoured, exit 0 held / 1 VIOLATION / 2 harness error; '
                 'known findings in known_findings.txt; see DESIGN.md.',
        'not_applicable': [{'property_id': p, 'reason': NOT_YET} for p in ALL if p not in BUILT],
    }
    with open(os.path.join(ROOT, 'MANIFEST.json'), 'w') as f:
        json.dump(m, f, indent=1)
        f.write('\n')
    try:
        import jsonschema
        jsonschema.validate(m, json.load(open('/root/.vp/MANIFEST.schema.json')))
        print('MANIFEST.json valid; %d checks' % len(checks))
    except ImportError:
        print('MANIFEST.json written (jsonschema unavailable); %d checks' % len(checks))


if __name__ == '__main__':
    main()
