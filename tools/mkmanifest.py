#!/venv/bin/python
"""Regenerates /verif/MANIFEST.json from the table below (kept in one place so the manifest is always valid)."""
import json
import os
import subprocess

HERE = os.path.dirname(os.path.abspath(__file__))
ROOT = os.path.dirname(HERE)

ALL = ['C%02d' % i for i in range(1, 21)]

# property -> (technique, level text, level note, design ref)
BUILT = {
    'C01': ('hypothesis-generated model grids + deterministic catalogue, round-trip oracle with an own kind-strict comparator',
            'Grids over the whole documented value domain (every kind in every position, metachar-biased strings over all '
            'code points, boundary floats, all mapped zones, nesting<=3, versions 2.0/3.0, single and multi-grid documents) are '
            'dumped as ZINC and parsed back; the result is compared with the input model by a comparator written for this '
            'harness (exact kinds, exact numbers/dates/times/instants/offsets/zone names, coordinates to six decimals). A '
            'deterministic catalogue covers boundary payloads, every zone and every kind x position cell. Exploration: '
            'finds counterexamples, proves nothing. Part independent-results: the caller overwrites every mutable part of '
            'the parsed and of the dumped grids; a second parse of the same text and a further round trip must be unaffected.',
            'Trusts vf.model.to_model/from_model and the domain restrictions listed in DESIGN.md 1.4.',
            'DESIGN.md 3/C01'),
    'C02': ('hypothesis-generated model grids + deterministic catalogue, JSON round-trip oracle x {text, bytes, pre-decoded} input',
            'Same generators as C01 through JSON mode; input handed back as text, bytes in utf-8/16/32, or the pre-decoded '
            'object; six-decimal tolerance only on float payloads; Remove spelling per version checked on the emitted JSON. '
            'Exploration only. Part independent-results as in C01, plus: modifying a parsed grid must not change the pre-decoded input.',
            'Trusts vf.model and the stdlib json module; tolerance rule abs(a-b) <= 5e-7 + 1e-12|a|.',
            'DESIGN.md 3/C02'),
    'C19': ('exhaustive pair/triple enumeration over a value catalogue + hypothesis pairs; generated grids vs all single-position edits',
            'All ordered pairs (and equality-triples) over a ~330-value catalogue spanning every kind and the same text in every '
            'text-like kind are checked for: no exception (except Quantity unit mismatch), complementarity, symmetry, '
            'reflexivity, text-like kinds pairwise unequal, equal-hash, singleton identity under copy. Generated grids must '
            'equal their copy, deepcopy and both round trips and be unequal, without raising, to every single-position edit '
            '(row, column name, metadata name; in every row one cell of another kind / other content / removed; a date-time cell moved by a day, '
            'to a zone with another offset and to a zone sharing its offset).',
            'NaN excluded from reflexivity; XStr equality beyond the laws not asserted; version/order not "material".',
            'DESIGN.md 3/C19'),
    'C20': ('exhaustive operator x operand catalogue product + hypothesis ints/floats, differential oracle against the bare value',
            'Every arithmetic/bitwise/comparison/unary/conversion operator is evaluated on Quantity(v,u) and on v for the full '
            'product of a boundary catalogue (both operand orders, Quantity-Quantity, four units, three-argument pow); outcomes '
            '(type+repr or exception type) must be identical; Quantity-vs-Quantity comparisons must raise TypeError iff units '
            'differ. Exhaustive over the catalogue, sampled beyond it. Also 14 pairs of neighbouring numbers (last place, 1e-10 relative) under the six '
            'comparisons, and the comparison/arithmetic/unary catalogue again under hszinc.use_pint(True) for units pint knows.',
            'Trusts CPython numeric semantics as the reference; shift/exponent magnitudes bounded.',
            'DESIGN.md 3/C20'),
    'C03': ('grammar-directed independent ZINC writer with hypothesis-drawn spelling plans; differential oracle: hszinc.parse vs the denoted model',
            'A model grid is rendered by a writer that shares no code with hszinc under a per-token spelling plan (blanks '
            'around commas, empty cells, digit separators/exponents/leading zeros, INF/-INF/NaN, every named and \\uXXXX escape '
            'raw or escaped per character, T/t Z/z, 0-6 fraction digits, zone name or not, trailing commas and blanks in '
            'lists/dicts, bare marker tags), LF/CRLF, with/without final newline, 0-3 grids, str or bytes in seven charsets, '
            'single flag; hszinc.parse must return exactly the denoted grids. Every document is first cross-checked by the '
            'independent reader. A deterministic table crosses catalogue values x uniform plans x positions.',
            'Well-formedness is defined by the harness\'s transcription of the grammar (DESIGN.md Appendix A); only constructs '
            'the transcription is certain of are emitted.',
            'DESIGN.md 3/C03'),
    'C04': ('hypothesis-generated model grids + catalogue; hszinc.dump output judged by an independent spec-derived ZINC reader',
            'The text produced by hszinc.dump / dump_scalar for grids over the C01 domain is parsed by a hand-written '
            'recursive-descent reader of the pinned ZINC grammar (no hszinc, no pyparsing) that is strict about header form, '
            'row arity, legal escapes, raw control characters, INF/-INF/NaN, digit syntax, tag names and version gating of '
            'constructs; it must accept the text and recover the model.',
            'Conformance is judged against the harness\'s transcription of the grammar; uncertain constructs are accepted, so '
            'some non-conformances can slip through but none are invented. URIs without C0 controls.',
            'DESIGN.md 3/C04'),
    'C05': ('independent Haystack-JSON writer with hypothesis-drawn spelling plans x input forms; differential oracle: hszinc.parse vs the denoted model',
            'A model grid is rendered by a JSON writer that shares no code with hszinc under a spelling plan (number literal '
            'forms incl. exponents, raw JSON numbers/bools, INF/NaN, both Remove spellings, time/date-time variants, s: prefix or '
            'bare strings incl. JSON look-alikes, nested containers, rows absent/null, omitted or null cells, key order) and '
            'handed over as compact/indented/non-ASCII text, utf-8/16/32 bytes, dict or list of dicts; hszinc.parse must return '
            'exactly the denoted grids, leave the caller\'s object deep-unchanged and share no mutable object with it.',
            'Well-formedness per DESIGN.md Appendix B; tags keep relative order.',
            'DESIGN.md 3/C05'),
    'C06': ('hypothesis-generated model grids + catalogue; hszinc JSON output judged by strict json.loads, a shape/prefix check and an independent reader',
            'hszinc.dump(..., MODE_JSON) output for grids over the C01 domain must be strict JSON of the documented shape, every '
            'value must carry the type prefix of its model kind with a payload in that kind\'s lexical form (independent '
            'reader), Remove spelled per version, and the independent reader must recover the model (six-decimal tolerance on '
            'float payloads).',
            'Lexical forms per DESIGN.md Appendix B.',
            'DESIGN.md 3/C06'),
    'C07': ('documents from the independent ZINC/JSON writers (parser-made values) driven by hypothesis; round-trip, transcode-chain, purity and idempotence oracles',
            'Documents written by the independent writers of C03/C05 - with zone-less date-times, raw JSON numbers, plain-dict '
            'column metadata and the version labels 1.0, 2.0, 2.5, 3.0, 3.0.0, 4.0 - are parsed by hszinc; both re-dumps must '
            'succeed, re-parse equal (kind-strict; six decimals after a JSON hop; date-times by instant and offset), the chains '
            'ZINC->JSON->ZINC and JSON->ZINC->JSON must return to the start, dumping must not change the grid or be '
            'non-deterministic, and dump(parse(.)) must be idempotent as text in both formats.',
            'Whole-hour offsets for zone-less date-times; no 3.0 data under pre-3.0 labels; no Bin under 1.0/2.5.',
            'DESIGN.md 3/C07'),
    'C08': ('exhaustive enumeration of code points and short metachar strings in every text position x both formats; hypothesis strings; sentinel-structure oracle with bisection',
            'Every payload is placed in str, Uri, Ref display, XStr payload, grid-metadata, dict-value, list-item and nested-grid '
            'positions of a two-grid probe with sentinel neighbours; after dump+parse the grid/row/cell structure, the '
            'sentinels and the payload must be identical, in ZINC and JSON. Thorough enumerates all 1,112,064 scalar code '
            'points and all 40,495 strings of length <=3 over a 34-character metachar alphabet; quick U+0000..U+2FFF, plane '
            'boundaries, a stride sample and all strings of length <=2. Every third probe follows a refused, dropped and collected look-alike dump.',
            'Lone surrogates excluded; payload batches of 48 per probe, bisected on failure.',
            'DESIGN.md 3/C08'),
    'C09': ('exhaustive single-edit mutation of a document corpus + line splices + broken-by-construction documents + hypothesis token soup + atheris/libFuzzer campaigns; exception-type/position/rejection/termination oracle',
            'Every delete/insert/replace/truncate mutant (12 or 28 edit characters) and line-boundary splice of 16 (quick) / 64 '
            '(thorough) small well-formed documents, plus Hypothesis token soups, are parsed: only a list of Grid or a '
            'ZincParseException (ValueError) with an in-range or (0,0) position may come out; parse_scalar may raise only '
            'ValueError subclasses; a watchdog turns hangs into "inconclusive". ~100 kinds of documents broken by construction '
            '(header, quotes, escapes, brackets, tag names incl. non-ASCII, 3.0 constructs under 2.0) x filler values must be rejected; a '
            'document rejected with single=False must not yield a grid with single=True; coverage-guided atheris campaigns (seeded and '
            'empty corpus) run the same oracle inside the fuzz target.',
            'str input only; bracket nesting <= 3; TAB-bearing texts are exempt from the column-range check while finding '
            'zinc.tab-position is open.',
            'DESIGN.md 3/C09'),
    'C10': ('exhaustive label x entry-path x kind table and short histories + hypothesis histories against a reference gating model; five-decision agreement',
            'Grids are built and mutated through every entry path (constructor, metadata and column-metadata stores, append, '
            'insert, extend, +=, item assignment, two bypass paths) with 3.0-only values (NA, list, dict, nested grid, XStr; '
            'direct or nested) under no label / 1.0 / 2.0 / 2.5 / 3.0 / 3.0.0 / 4.0. After every step the reference model decides: '
            'auto-upgrade, ValueError with the grid unchanged, or stored; both writers must refuse iff the label refuses, '
            'their output must read back; the same content written by the independent writers must be rejected by both hszinc '
            'readers iff the label refuses; and the five decisions must agree per label.',
            'Nearest-official-version semantics for in-between labels is taken from Version.nearest (pinned by the test-suite); '
            'Bin not generated.',
            'DESIGN.md 3/C10'),
    'C11': ('exhaustive small-scope enumeration of filter ASTs x all tag valuations + hypothesis ASTs/renderings/grids; differential oracle against a reference evaluator',
            'Every filter with <= 3 atoms over a 12-atom alphabet and 8 connective shapes (incl. 3-operand chains and mixed '
            'precedence) is run on a grid holding all 7x7x5 valuations of its tags (absent, null, marker, equal, below, above, '
            'other kind, valid/dangling/non-Ref); Hypothesis adds deeper ASTs with nine literal kinds, keyword-prefixed tag '
            'names, two-level paths, spelling/parenthesis variation and limit. Selected rows (identity, order, limit), carried '
            'header and an untouched source grid are compared with an evaluator written from the Haystack filter semantics. A result '
            'filtered again follows references within the result; rows added to a result are not reachable from the source.',
            'Semantics pinned in DESIGN.md Appendix C; ids are plain strings; Ref equality by name, display-less.',
            'DESIGN.md 3/C11'),
    'C12': ('payload x slot x shape table + hypothesis fragment soup + atheris/libFuzzer campaigns; canary objects, sys.addaudithook events and global-state snapshots as oracle',
            'About 200 payloads (canary calls, __import__/open/exec/eval/compile/getattr expressions, dunder and builtin names, '
            'quote/backquote/backslash/newline/#/; break-outs, format directives) are placed, escaped and raw, into 32 literal '
            'and identifier slots of the filter grammar inside 6 enclosing shapes and evaluated with grid.filter; no canary '
            'may be touched, no executed/compiled code may name a payload identifier, no import/open/process/socket audit '
            'event may mention a canary, only parse errors/ValueError may escape, and module globals, builtins, sys.modules, '
            'environment, cwd, canary directory and the grid must be unchanged.',
            'An absence-of-effect claim can only be searched; effects are visible only through canaries, audit events and the '
            'snapshotted state.',
            'DESIGN.md 3/C12'),
    'C13': ('harness-owned deterministic thread scheduler (sys.settrace line events) with enumerated preemption-bounded and hypothesis-drawn schedules; hypothesis histories around the LRU capacity; reference-evaluator oracle',
            'Threads compiling and evaluating distinct fresh filters are interleaved at source-line granularity inside '
            'hszinc/grid_filter.py and Grid.reindex / Grid.filter by a scheduler whose schedule is data: all 2-thread schedules with '
            '<= 4 switches (quick: ~17 yield points per thread, 5,238 schedules; thorough: ~37, 50,025) and all 3-thread schedules '
            'with <= 3 are enumerated, more are drawn by Hypothesis; every '
            'thread must get its own filter\'s rows, also on re-evaluation. Histories of evaluate/re-evaluate/call-held-function/'
            'gc/row replacement over filter pools (12 kinds of filters incl. literals that differ in kind only (true/1/1kW), a->b paths, bool/date/quantity/date-time/Ref literals, '
            'same-token pairs, literal-only pairs, a hot filter) are run against an lru_cache(8) re-wrap and the real capacity 500 '
            '(1,700 filters).',
            'Line granularity; C-level operations are atomic under the GIL.',
            'DESIGN.md 3/C13'),
    'C14': ('exhaustive small-scope enumeration of operation histories + hypothesis histories, lock-step with a Python list model',
            'Every history of up to 3 (quick) / 4 (thorough) operations over a ~45-op alphabet (append, insert, extend and += incl. '
            'one-shot iterables, item assignment, del by index and slice incl. negative steps, pop, remove incl. near-equal rows, '
            'reverse, clear, continue-on-slice, refused non-dict rows, out-of-range indices, 3.0 values under a 2.0 label) from four '
            'initial grids (declared 3.0 / 2.0, auto-promoted, unlabelled) is applied to a Grid and to a list of the same row objects; outcomes '
            'per step and len/iteration/indexing/slicing/membership/count/index afterwards must agree. Hypothesis adds 50-step '
            'histories observed after every step.',
            'Trusts the Python list as the reference; rows hold scalars only.',
            'DESIGN.md 3/C14'),
    'C15': ('exhaustive small-scope enumeration of operation histories + hypothesis histories, scan-based id model',
            'Same histories as C14 (quick: one initial grid to depth 4) over rows with str/int/Ref ids, duplicate and falsy ids, ids '
            'with equal string forms, rows without id, read-modify-write of a row, slice- and filter-derived grids and their sources; afterwards grid[key] and grid.get(key, default) for ten str/Ref keys must return a '
            'row currently in the grid with that id string, or KeyError/default iff none has it.',
            'With duplicate ids any current matching row is accepted.',
            'DESIGN.md 3/C15'),
    'C16': ('exhaustive small-scope enumeration of operation histories + hypothesis histories against a reference ordered-map model',
            'All histories up to depth 3 over 3-4 keys and every position argument from six initial maps, for SortableDict, '
            'MetadataObject and a MetadataObject with a refusing value validator, are replayed on the real object and on a list-of-pairs model of the documented semantics; '
            'outcomes, items(), at/value_at/index, uniqueness and "rejected op changes nothing" are compared; Hypothesis adds '
            '40-step histories incl. extend/pop/setdefault/clear and checks the order seen by the ZINC/JSON writers.',
            'Model semantics for relocation by numeric index follow the implementation (doc-string silent).',
            'DESIGN.md 3/C16'),
    'C17': ('exhaustive enumeration over mapped zones x pytz transition table x deltas x microseconds x formats; fixed-offset/alias/custom tzinfo catalogue; hypothesis instants',
            'For all 366 mapped zones, every tabulated UTC transition (thorough: all ~23k; quick: first 3 + last 6 per zone) '
            '+-{0,1 s,30 min} x three microsecond values x both formats, the written date-time must read back with the same '
            'instant, offset and Haystack zone name and the text must carry that name; map laws are checked for every name. '
            'Every whole-minute fixed offset -14h..+14h, pytz alias zones and a custom DST tzinfo at ambiguous/skipped/ordinary '
            'local times must give a zone of equal offset and equal instant, or ValueError - nothing else. After reads of differently '
            'spelled zone names (other case, stray blank) a zone is still written under its own name and the maps stay inverse bijections.',
            'Trusts pytz as the zone database and its transition table as the list of transitions.',
            'DESIGN.md 3/C17'),
    'C18': ('exhaustive enumeration of version-string pairs/triples + hypothesis strings against an independent reference key',
            'All 3,459,600 ordered pairs over 1,860 version strings (padding x suffix) are compared with an independently written '
            'reference order for trichotomy, six-operator agreement, string operands on both sides, hash/set/dict behaviour, '
            'grammar-cache identity and nearest(); all triples over a 40/120-string subset for transitivity and congruence; one long-lived object per string of a 150/300-string subset compared in a fixed sequence; plus '
            'seeded Hypothesis strings. Search, not proof: outside the enumerated universe only sampled.',
            'Trusts the reference key written from the module doc-string of hszinc/version.py; suffixes contain no newline.',
            'DESIGN.md 3/C18'),
}

NOT_YET = 'check not built yet in this session (planned, see DESIGN.md section 3); not claimed until it runs quiet on the unchanged tree'


def main():
    checks = []
    for pid in ALL:
        if pid not in BUILT:
            continue
        tech, text, note, ref = BUILT[pid]
        checks.append({
            'property_id': pid,
            'quick_cmd': '/venv/bin/python -m vf check %s --tier quick' % pid,
            'thorough_cmd': '/venv/bin/python -m vf check %s --tier thorough' % pid,
            'evidence_file': 'evidence/%s.json' % pid,
            'replay_cmd_template': '/venv/bin/python -m vf replay {path}',
            'engine': 'vf',
            'level_claimed': {'category': 'exploration', 'text': text, 'design_ref': ref},
            'level_note': note,
            'technique': tech,
        })
    try:
        commits = subprocess.check_output(
            ['git', '-C', '/repo', 'log', '--format=%h %s', '--grep=^hook:'], text=True).split('\n')
        commits = [c.split()[0] for c in commits if c.strip()]
    except Exception:
        commits = []
    m = {
        'version': 1,
        'setup_cmd': './tools/setup.sh',
        'hooks': {
            'guard': 'WIDESKY_HSZINC_VERIF',
            'enable': 'no source hooks are needed: checks import hszinc from /repo\'s working tree in-process '
                      '(sys.path[0]=/repo); the guard variable is reserved and unused',
            'baseline_off_cmd': '/venv/bin/python tools/baseline.py',
            'source_commits': commits,
            'add_only': True,
        },
        'engines': [{
            'name': 'vf', 'path': 'vf/',
            'serves_properties': sorted(BUILT),
            'kind_free_text': 'property-based testing / fuzzing harness: Hypothesis strategies and rule-based state machines, '
                              'deterministic exhaustive enumeration of small finite sub-domains, a harness-owned thread '
                              'scheduler, atheris campaigns; independent reference codecs/evaluators as oracles',
        }],
        'checks': checks,
        'notes': 'All checks: cwd=/verif, VERIF_SEED honoured, exit 0 held / 1 VIOLATION / 2 harness error; '
                 'known findings in known_findings.txt; see DESIGN.md.',
        'not_applicable': [{'property_id': p, 'reason': NOT_YET} for p in ALL if p not in BUILT],
    }
    with open(os.path.join(ROOT, 'MANIFEST.json'), 'w') as f:
        json.dump(m, f, indent=1)
        f.write('\n')
    try:
        import jsonschema
        jsonschema.validate(m, json.load(open('/root/.vp/MANIFEST.schema.json')))
        print('MANIFEST.json valid; %d checks' % len(checks))
    except ImportError:
        print('MANIFEST.json written (jsonschema unavailable); %d checks' % len(checks))


if __name__ == '__main__':
    main()
