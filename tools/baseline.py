#!/venv/bin/python
"""Run the repository's own test-suite (guard OFF: no VERIF env set) and compare with the pinned
baseline: every test id in tools/baseline_ids.json (copied from /root/.vp/BASELINE.json) must pass."""
import json, os, subprocess, sys, tempfile, xml.etree.ElementTree as ET
here = os.path.dirname(os.path.abspath(__file__))
repo = os.environ.get('VERIF_REPO', '/repo')
want = set(json.load(open(os.path.join(here, 'baseline_ids.json'))))
env = dict(os.environ)
for k in list(env):
    if k.startswith('WIDESKY_HSZINC_VERIF') or k in ('VERIF_REPO',):
        env.pop(k)
env['PYTHONDONTWRITEBYTECODE'] = '1'
with tempfile.TemporaryDirectory(prefix='hszinc-baseline-', dir='/var/tmp') as d:
    xml = os.path.join(d, 'junit.xml')
    p = subprocess.run(['/venv/bin/python', '-m', 'pytest', '-q', '-p', 'no:cacheprovider', '--timeout=900',
                        '--continue-on-collection-errors', '--junitxml=' + xml], cwd=repo, env=env,
                       stdout=subprocess.PIPE, stderr=subprocess.STDOUT, text=True)
    passed, failed = set(), set()
    for tc in ET.parse(xml).getroot().iter('testcase'):
        tid = (tc.get('classname') or '') + '::' + (tc.get('name') or '')
        if tc.find('failure') is not None or tc.find('error') is not None:
            failed.add(tid)
        elif tc.find('skipped') is None:
            passed.add(tid)
passed -= failed
missing = sorted(want - passed)
print('baseline: %d/%d pinned tests pass; %d other failures' % (len(want & passed), len(want), len(failed - want)))
for m in missing[:40]:
    print('NOT PASSING:', m)
sys.exit(1 if missing else 0)
