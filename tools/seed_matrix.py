#!/venv/bin/python
"""Run every seeded change under /verif/seeded against the quick check of its property (and optional extra checks)
and (re)write seeded/RESULTS.md and the 'detected_by' field of each meta.json.
usage: seed_matrix.py [--only C01-1,C02-3] [--extra C11:C13-3,...] [--jobs N]"""
import argparse, json, os, subprocess, sys, time
from concurrent.futures import ThreadPoolExecutor
ROOT = os.path.dirname(os.path.dirname(os.path.abspath(__file__)))
SEEDED = os.path.join(ROOT, 'seeded')


def run_one(sid, checks):
    d = os.path.join(SEEDED, sid)
    p = subprocess.run([sys.executable, os.path.join(ROOT, 'tools', 'seed_eval.py'), d, '--skip-suite', '--checks', ','.join(checks)],
                       stdout=subprocess.PIPE, stderr=subprocess.STDOUT, text=True)
    try:
        return sid, json.loads(p.stdout)
    except Exception:
        return sid, {'error': p.stdout[-500:]}


def main():
    ap = argparse.ArgumentParser()
    ap.add_argument('--only', default='')
    ap.add_argument('--jobs', type=int, default=2)
    a = ap.parse_args()
    ids = sorted(x for x in os.listdir(SEEDED) if os.path.isdir(os.path.join(SEEDED, x)))
    if a.only:
        ids = [i for i in ids if i in a.only.split(',')]
    jobs = []
    for sid in ids:
        meta = json.load(open(os.path.join(SEEDED, sid, 'meta.json')))
        checks = [meta['property']] + [c for c in meta.get('also_run', [])]
        jobs.append((sid, checks))
    with ThreadPoolExecutor(a.jobs) as ex:
        results = list(ex.map(lambda j: run_one(*j), jobs))
    for sid, r in results:
        mp = os.path.join(SEEDED, sid, 'meta.json')
        meta = json.load(open(mp))
        if 'error' in r or 'detected_by' not in r:
            meta['detected_by'] = {'error': r.get('error') or 'patch does not apply to the current /repo: %s' % r.get('patch_output', '')}
        else:
            meta['detected_by'] = dict((c, {'detected': v['exit'] == 1, 'exit': v['exit'], 'wall_s': v['wall_s'],
                                            'first_stage': (v['first'] or [''])[0][:200]}) for c, v in r['detected_by'].items())
            meta['confirmed']['demo_passes_on_repo'] = r['demo_passes_on_repo']
            meta['confirmed']['demo_fails_with_patch'] = r['demo_fails_on_patched']
        meta['ran'] = 'tools/seed_matrix.py -> tools/seed_eval.py <dir> --checks %s --tier quick (VERIF_SEED=1) against a scratch copy of /repo with patch.diff applied' % ','.join(meta['detected_by'])
        json.dump(meta, open(mp, 'w'), indent=1, sort_keys=True)
    write_results()


def write_results():
    rows = []
    for sid in sorted(os.listdir(SEEDED)):
        mp = os.path.join(SEEDED, sid, 'meta.json')
        if not os.path.exists(mp):
            continue
        m = json.load(open(mp))
        det = m.get('detected_by', {})
        cell = '; '.join('%s: %s (%.0fs) %s' % (c, 'CAUGHT' if v.get('detected') else 'missed', v.get('wall_s', 0),
                                              v.get('first_stage', '').replace('|', '/')[:90]) for c, v in det.items() if isinstance(v, dict))
        first = m.get('first_round_detection', {})
        fr = ', '.join('%s:%s' % (c, 'caught' if v['detected'] else 'MISSED') for c, v in first.items())
        rows.append('| %s | %s | %s | %s | %s |' % (sid, m.get('summary', '').replace('|', '/')[:140], m.get('needs', '').replace('|', '/')[:140], fr, cell))
    with open(os.path.join(SEEDED, 'RESULTS.md'), 'w') as f:
        f.write('# Seeded changes (independent sub-agents) vs the checks\n\n'
                'Every change compiles, passes the repository\'s own 2830 pinned tests, and comes with a demo that fails only with the '
                'change applied (confirmed by tools/seed_eval.py). "first round" = the checks as they were when the change was written; '
                '"now" = current quick tier (VERIF_SEED=1).\n\n'
                '| id | change | needs | first round | now |\n|---|---|---|---|---|\n' + '\n'.join(rows) + '\n')


if __name__ == '__main__':
    main()
