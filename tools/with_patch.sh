#!/bin/sh
# usage: tools/with_patch.sh <patch.diff> <command...>
# Runs <command> with VERIF_REPO pointing at a scratch copy of /repo's working tree with the patch applied.
# The copy lives under /var/tmp and is removed afterwards.  /repo itself is not touched.
set -e
patch="$(realpath "$1")"; shift
d="$(mktemp -d /var/tmp/hszinc-mut-XXXXXX)"
trap 'rm -rf "$d"' EXIT
mkdir -p "$d/repo"
rsync -a --exclude .git --exclude __pycache__ /repo/ "$d/repo/"
( cd "$d/repo" && patch -p1 -s < "$patch" )
VERIF_REPO="$d/repo" "$@"
