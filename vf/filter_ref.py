"""Reference model of Project Haystack filters (DESIGN.md Appendix C): AST, renderer with spelling
plan, and an evaluator written from the filter semantics - shares no code with hszinc.

AST (JSON-able):  ['has', path] ['not', path] ['cmp', op, path, literal-model]
                  ['and', [node...]] ['or', [node...]] ['paren', node]
path = [name, ...]; literal-model = a scalar of vf.model (bool num qty str uri ref date time dt)
"""
import datetime

from . import model
from .zinc_ref import Plan, Writer

CMP_OPS = ['==', '!=', '<', '<=', '>', '>=']
ABSENT = ('absent',)


class LitWriter(Writer):
    """literal spellings of the filter grammar (ZINC spellings except booleans)"""

    def lit(self, m):
        if m[0] == 'bool':
            return 'true' if m[1] else 'false'
        return self.value(m, '3.0')


def render(node, plan=None):
    p = plan or Plan()
    w = LitWriter(p)

    def sp(label='blank'):
        return ' ' * (1 + p.pick(3, label))

    def osp():
        return ' ' * p.pick(3, 'blank-around-cmp')

    def r(n, parent=None):
        k = n[0]
        if k == 'has':
            s = '->'.join(n[1])
        elif k == 'not':
            s = 'not' + sp() + '->'.join(n[1])
        elif k == 'cmp':
            s = '->'.join(n[2]) + osp() + n[1] + osp() + w.lit(n[3])
        elif k == 'paren':
            s = '(' + ' ' * p.pick(2, 'blank-in-paren') + r(n[1]) + ' ' * p.pick(2, 'blank-in-paren') + ')'
        elif k in ('and', 'or'):
            parts = []
            for c in n[1]:
                t = r(c, k)
                if (k == 'and' and c[0] == 'or') or c[0] == k:
                    t = '(' + t + ')'      # keep the tree shape explicit
                parts.append(t)
            s = (sp() + k + sp()).join(parts) if False else parts[0]
            for t in parts[1:]:
                s += sp() + k + sp() + t
        else:
            raise ValueError(n)
        if k != 'paren' and p.pick(6, 'redundant-paren') == 5:
            s = '(' + s + ')'
        return s
    return r(node)


# ---------------------------------------------------------------- evaluation

def kind_of(v):
    """Haystack kind of a Python value as stored in a grid row (None for values the filter grammar cannot name)"""
    import hszinc
    if v is None:
        return None
    t = type(v)
    if t is bool:
        return 'bool'
    if t in (int, float):
        return 'num'
    if isinstance(v, hszinc.Quantity):
        return 'qty'
    if t is str:
        return 'str'
    if t is hszinc.Uri:
        return 'uri'
    if t is hszinc.Ref:
        return 'ref'
    if isinstance(v, datetime.datetime):
        return 'dt'
    if t is datetime.date:
        return 'date'
    if t is datetime.time:
        return 'time'
    if v is hszinc.MARKER:
        return 'marker'
    return 'other'


def resolve(grid_rows, row, path):
    """value at path or ABSENT"""
    import hszinc
    v = row.get(path[0])
    for name in path[1:]:
        if v is None or type(v) is not hszinc.Ref:
            return ABSENT
        target = None
        for r in grid_rows:
            if 'id' in r and r['id'] is not None and str(r['id']) == v.name:
                target = r
        if target is None:
            return ABSENT
        v = target.get(name)
    if v is None:
        return ABSENT
    return v


def compare(op, v, lit_model):
    """truth of `v op literal` for a present value v"""
    lit = model.from_model(lit_model)
    kv, kl = kind_of(v), lit_model[0]
    same = kv == kl
    if same and kv == 'qty':
        same = v.unit == lit.unit
        a, b = v.value, lit.value
    elif same and kv == 'ref':
        a, b = v.name, lit.name
    else:
        a, b = v, lit
    if op == '==':
        return same and a == b
    if op == '!=':
        return not (same and a == b)
    if not same or kv in ('bool', 'ref'):
        return False
    if op == '<':
        return a < b
    if op == '<=':
        return a <= b
    if op == '>':
        return a > b
    return a >= b


def evaluate(node, grid_rows, row):
    k = node[0]
    if k == 'has':
        return resolve(grid_rows, row, node[1]) is not ABSENT
    if k == 'not':
        return resolve(grid_rows, row, node[1]) is ABSENT
    if k == 'cmp':
        v = resolve(grid_rows, row, node[2])
        if v is ABSENT:
            return False
        return bool(compare(node[1], v, node[3]))
    if k == 'paren':
        return evaluate(node[1], grid_rows, row)
    if k == 'and':
        return all(evaluate(c, grid_rows, row) for c in node[1])
    if k == 'or':
        return any(evaluate(c, grid_rows, row) for c in node[1])
    raise ValueError(node)


def select(node, rows, limit=0):
    out = []
    for r in rows:
        if evaluate(node, rows, r):
            out.append(r)
            if limit and len(out) == limit:
                break
    return out


def atoms(node):
    if node[0] in ('has', 'not'):
        yield node
    elif node[0] == 'cmp':
        yield node
    elif node[0] == 'paren':
        for a in atoms(node[1]):
            yield a
    else:
        for c in node[1]:
            for a in atoms(c):
                yield a


def count_operands(node):
    if node[0] in ('and', 'or'):
        return max([len(node[1])] + [count_operands(c) for c in node[1]])
    if node[0] == 'paren':
        return count_operands(node[1])
    return 1
