"""Round-trip oracles shared by C01 (ZINC) and C02 (JSON)."""
import copy
import json

from . import model
from .core import Violation, guarded


def _mode(fmt, variant=0):
    """the mode constant, or one of the documented aliases ('zinc', 'json', any case)"""
    import hszinc
    if variant % 4 == 1:
        return fmt
    if variant % 4 == 2:
        return fmt.upper()
    return hszinc.MODE_ZINC if fmt == 'zinc' else hszinc.MODE_JSON


def check_scalar(case, fmt):
    """case = {'kind': 'scalar', 'ver': '2.0'|'3.0', 'value': model}"""
    import hszinc
    ver = case['ver']
    m = case['value']
    v = model.from_model(m)
    tags = (fmt, 'scalar', m[0])
    var = len(repr(m))          # deterministic variation of equivalent API spellings
    txt = guarded('dump-raises', case, hszinc.dump_scalar, v, mode=_mode(fmt, var), version=hszinc.Version(ver))
    if fmt == 'json':
        # the JSON scalar dumper returns the JSON value; transport it as text
        txt = guarded('json-encode', case, json.dumps, txt)
        back = guarded('parse-raises', case, lambda: hszinc.parse_scalar(
            json.loads(txt), mode=_mode(fmt, var // 4), version=(ver if var % 2 else hszinc.Version(ver))))
    else:
        if not isinstance(txt, str):
            raise Violation('dump-type', case, 'dump_scalar returned %s' % type(txt).__name__, tags)
        back = guarded('parse-raises', case, hszinc.parse_scalar, txt, mode=_mode(fmt, var // 4),
                       version=(ver if var % 2 else hszinc.Version(ver)))
    d = model.diff(model.normalise(m), model.to_model(back), tol=(fmt == 'json'))
    if d:
        raise Violation('roundtrip-diff', case, '%s | text=%r' % (d, txt[:300]), tags + (d.split(':')[1].split()[0] if ':' in d else '',))
    return txt


def _remove_spelling(obj, ver, path, case):
    """2.0 grids spell Remove 'x:', 3.0 grids '-:' (C02)."""
    if isinstance(obj, dict):
        if {'meta', 'cols', 'rows'} <= set(obj):
            ver = obj['meta'].get('ver', ver)
        for k, v in obj.items():
            _remove_spelling(v, ver, path + '.' + k, case)
    elif isinstance(obj, list):
        for i, v in enumerate(obj):
            _remove_spelling(v, ver, '%s[%d]' % (path, i), case)
    elif isinstance(obj, str):
        if obj == 'x:' and ver != '2.0':
            raise Violation('remove-spelling', case, '%s: 2.0 spelling x: in a %s grid' % (path, ver))
        if obj == '-:' and ver != '3.0':
            raise Violation('remove-spelling', case, '%s: 3.0 spelling -: in a %s grid' % (path, ver))


def _has_remove(m):
    return any(k == 'remove' for _, k in model.kinds(m))


def check_doc(case, fmt):
    """case = {'kind': 'doc', 'single': bool, 'grids': [grid models], 'form': 'text'|'bytes:<charset>'|'obj'}"""
    import hszinc
    ms = case['grids']
    single = case['single']
    form = case.get('form', 'text')
    gs = [model.from_model(m) for m in ms]
    before = [model.to_model(g) for g in gs]
    var = len(repr(ms))         # deterministic variation of equivalent API spellings
    if single and var % 5 == 4:
        from hszinc import dumper
        txt = guarded('dump-raises', case, dumper.dump_grid, gs[0], mode=_mode(fmt, var))
    else:
        txt = guarded('dump-raises', case, hszinc.dump, gs[0] if single else gs, mode=_mode(fmt, var))
    if not isinstance(txt, str):
        raise Violation('dump-type', case, 'dump returned %s' % type(txt).__name__)
    for b, g in zip(before, gs):
        d = model.diff(b, model.to_model(g))
        if d:
            raise Violation('dump-mutated-grid', case, d)
    if fmt == 'json':
        obj = guarded('json-invalid', case, json.loads, txt)
        for m in ms:
            if _has_remove(m):
                _remove_spelling(obj, None, '', case)
                break
    if form == 'text':
        inp = txt
        kw = {}
    elif form.startswith('bytes:'):
        cs = form.split(':', 1)[1]
        inp = txt.encode(cs)
        kw = {'charset': cs}
    else:
        inp = json.loads(txt)
        kw = {}
    keep = copy.deepcopy(inp) if form == 'obj' else None
    if single and form == 'text' and var % 7 == 6:
        from hszinc import parser
        back = guarded('parse-raises', case, parser.parse_grid, inp, mode=_mode(fmt, var // 5))
    else:
        back = guarded('parse-raises', case, hszinc.parse, inp, mode=_mode(fmt, var // 5), single=single, **kw)
    if form == 'obj' and keep != inp:
        raise Violation('parse-mutated-input', case, 'pre-decoded input object was modified')
    if single:
        if not isinstance(back, hszinc.Grid):
            raise Violation('parse-type', case, 'single=True returned %s' % type(back).__name__)
        back = [back]
    elif not isinstance(back, list):
        raise Violation('parse-type', case, 'single=False returned %s' % type(back).__name__)
    if len(back) != len(ms):
        raise Violation('grid-count', case, 'dumped %d grids, parsed %d | text=%r' % (len(ms), len(back), txt[:300]))
    for i, (m, b) in enumerate(zip(ms, back)):
        d = model.diff(model.normalise(m), model.to_model(b), tol=(fmt == 'json'), path='grid[%d]' % i)
        if d:
            raise Violation('roundtrip-diff', case, '%s | text=%r' % (d, txt[:400]),
                            (fmt, 'doc', d.split(':')[1].split()[0] if ':' in d else ''))
    return txt


def labels_for(ms):
    out = set()
    for m in ms:
        for pos, k in model.kinds(m):
            out.add('%s@%s' % (k, pos))
        out.add('ver:' + m[1])
        out.add('depth:%d' % model.depth(m))
    return out


def doc_nontrivial(ms):
    for m in ms:
        for pos, k in model.kinds(m):
            if pos != 'top' and k != 'null':
                return True
    return False


def sized_cases(tier, shard, of, extra=None):
    """size sweep shared by C01-C07: (case, labels) with one dimension of the document pushed over a boundary"""
    from . import gen
    for i, (axis, n, ver) in enumerate(gen.sized_points(tier)):
        if i % of != shard:
            continue
        ms, single = gen.sized_doc(axis, n, ver)
        case = {'kind': 'doc', 'single': single, 'grids': ms, 'sized': [axis, n, ver]}
        if extra:
            case.update(extra)
        yield case, ('size:%s' % axis, 'size:%s>=%d' % (axis, 10 ** (len(str(n)) - 1)))
