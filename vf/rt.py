"""Round-trip oracles shared by C01 (ZINC) and C02 (JSON)."""
import copy
import json

from . import model
from .core import Violation, guarded


def _mode(fmt, variant=0):
    """the mode constant, or one of the documented aliases ('zinc', 'json', any case)"""
    import hszinc
    if variant % 4 == 1:
        return fmt
    if variant % 4 == 2:
        return fmt.upper()
    return hszinc.MODE_ZINC if fmt == 'zinc' else hszinc.MODE_JSON


def mode_kw(fmt, var):
    """keyword arguments that select the format in one of the equivalent public spellings (for ZINC, the default, also none)"""
    if fmt == 'zinc' and var % 7 == 5:
        return {}
    return {'mode': _mode(fmt, var)}


def dump_doc(case, gs, single, fmt, var, stage='dump-raises'):
    """hszinc.dump / dumper.dump_grid in one of the equivalent public spellings, chosen by the integer var: the mode as the
    constant or as a documented alias, several grids as a list, a tuple or a one-shot iterator"""
    import hszinc
    if single and var % 5 == 4:
        from hszinc import dumper
        return guarded(stage, case, dumper.dump_grid, gs[0], mode=_mode(fmt, var))
    if single:
        return guarded(stage, case, hszinc.dump, gs[0], mode=_mode(fmt, var))
    seq = (list(gs), tuple(gs), iter(list(gs)))[(var // 3) % 3]
    return guarded(stage, case, hszinc.dump, seq, mode=_mode(fmt, var))


def check_scalar(case, fmt):
    """case = {'kind': 'scalar', 'ver': '2.0'|'3.0', 'value': model}"""
    import hszinc
    ver = case['ver']
    m = case['value']
    v = model.from_model(m)
    tags = (fmt, 'scalar', m[0])
    var = len(repr(m))          # deterministic variation of equivalent API spellings
    txt = guarded('dump-raises', case, hszinc.dump_scalar, v, mode=_mode(fmt, var), version=hszinc.Version(ver))
    if fmt == 'json':
        # the JSON scalar dumper returns the JSON value; transport it as text
        txt = guarded('json-encode', case, json.dumps, txt)
        back = guarded('parse-raises', case, lambda: hszinc.parse_scalar(
            json.loads(txt), mode=_mode(fmt, var // 4), version=(ver if var % 2 else hszinc.Version(ver))))
    else:
        if not isinstance(txt, str):
            raise Violation('dump-type', case, 'dump_scalar returned %s' % type(txt).__name__, tags)
        back = guarded('parse-raises', case, hszinc.parse_scalar, txt, mode=_mode(fmt, var // 4),
                       version=(ver if var % 2 else hszinc.Version(ver)))
    d = model.diff(model.normalise(m), model.to_model(back), tol=(fmt == 'json'))
    if d:
        raise Violation('roundtrip-diff', case, '%s | text=%r' % (d, txt[:300]), tags + (d.split(':')[1].split()[0] if ':' in d else '',))
    return txt


def _remove_spelling(obj, ver, path, case):
    """2.0 grids spell Remove 'x:', 3.0 grids '-:' (C02)."""
    if isinstance(obj, dict):
        if {'meta', 'cols', 'rows'} <= set(obj):
            ver = obj['meta'].get('ver', ver)
        for k, v in obj.items():
            _remove_spelling(v, ver, path + '.' + k, case)
    elif isinstance(obj, list):
        for i, v in enumerate(obj):
            _remove_spelling(v, ver, '%s[%d]' % (path, i), case)
    elif isinstance(obj, str):
        if obj == 'x:' and ver != '2.0':
            raise Violation('remove-spelling', case, '%s: 2.0 spelling x: in a %s grid' % (path, ver))
        if obj == '-:' and ver != '3.0':
            raise Violation('remove-spelling', case, '%s: 3.0 spelling -: in a %s grid' % (path, ver))


def _has_remove(m):
    return any(k == 'remove' for _, k in model.kinds(m))


def check_doc(case, fmt):
    """case = {'kind': 'doc', 'single': bool, 'grids': [grid models], 'form': 'text'|'bytes:<charset>'|'obj'}"""
    import hszinc
    ms = case['grids']
    single = case['single']
    form = case.get('form', 'text')
    gs = [model.from_model(m) for m in ms]
    before = [model.to_model(g) for g in gs]
    var = len(repr(ms))         # deterministic variation of equivalent API spellings
    txt = dump_doc(case, gs, single, fmt, var)
    if not isinstance(txt, str):
        raise Violation('dump-type', case, 'dump returned %s' % type(txt).__name__)
    for b, g in zip(before, gs):
        d = model.diff(b, model.to_model(g))
        if d:
            raise Violation('dump-mutated-grid', case, d)
    if fmt == 'json':
        obj = guarded('json-invalid', case, json.loads, txt)
        for m in ms:
            if _has_remove(m):
                _remove_spelling(obj, None, '', case)
                break
    if form == 'text':
        inp = txt
        kw = {}
    elif form.startswith('bytes:'):
        cs = form.split(':', 1)[1]
        try:
            inp = txt.encode(cs)
        except UnicodeEncodeError:
            # a caller picks a charset that can carry the text; one that cannot is not a case
            cs = 'utf-8'
            inp = txt.encode(cs)
        kw = {'charset': cs}
    else:
        inp = json.loads(txt)
        kw = {}
    keep = copy.deepcopy(inp) if form == 'obj' else None
    if single and form == 'text' and var % 7 == 6:
        from hszinc import parser
        back = guarded('parse-raises', case, parser.parse_grid, inp, mode=_mode(fmt, var // 5))
    else:
        back = guarded('parse-raises', case, hszinc.parse, inp, mode=_mode(fmt, var // 5), single=single, **kw)
    if form == 'obj' and keep != inp:
        raise Violation('parse-mutated-input', case, 'pre-decoded input object was modified')
    if single:
        if not isinstance(back, hszinc.Grid):
            raise Violation('parse-type', case, 'single=True returned %s' % type(back).__name__)
        back = [back]
    elif not isinstance(back, list):
        raise Violation('parse-type', case, 'single=False returned %s' % type(back).__name__)
    if len(back) != len(ms):
        raise Violation('grid-count', case, 'dumped %d grids, parsed %d | text=%r' % (len(ms), len(back), txt[:300]))
    for i, (m, b) in enumerate(zip(ms, back)):
        d = model.diff(model.normalise(m), model.to_model(b), tol=(fmt == 'json'), path='grid[%d]' % i)
        if d:
            raise Violation('roundtrip-diff', case, '%s | text=%r' % (d, txt[:400]),
                            (fmt, 'doc', d.split(':')[1].split()[0] if ':' in d else ''))
    return txt


def labels_for(ms):
    out = set()
    for m in ms:
        for pos, k in model.kinds(m):
            out.add('%s@%s' % (k, pos))
        out.add('ver:' + m[1])
        out.add('depth:%d' % model.depth(m))
    return out


def doc_nontrivial(ms):
    for m in ms:
        for pos, k in model.kinds(m):
            if pos != 'top' and k != 'null':
                return True
    return False


def sized_cases(tier, shard, of, extra=None):
    """size sweep shared by C01-C07: (case, labels) with one dimension of the document pushed over a boundary"""
    from . import gen
    for i, (axis, n, ver) in enumerate(gen.sized_points(tier)):
        if i % of != shard:
            continue
        ms, single = gen.sized_doc(axis, n, ver)
        case = {'kind': 'doc', 'single': single, 'grids': ms, 'sized': [axis, n, ver]}
        if extra:
            case.update(extra)
        yield case, ('size:%s' % axis, 'size:%s>=%d' % (axis, 10 ** (len(str(n)) - 1)))


POISONS = ('object', 'naive-dt', 'na2', 'set')


def check_after_failed(case, fmt):
    """case = {'kind': 'after-failed', 'grid': model, 'poison': one of POISONS, 'where': 'cell' | 'nested' | 'outer'}
    A dump that is refused (a value of no Haystack kind, a zone-less date-time, 3.0-only data smuggled into a row of a
    2.0 grid) must leave nothing behind: once the row is repaired, the very same Grid object - alone, nested in another
    grid, or as part of a document of several grids - round-trips like any other valid grid."""
    import datetime
    import hszinc
    m = case['grid']
    where = case.get('where', 'cell')
    poison = case['poison']
    col = m[3][0][0]
    if not m[4]:
        m = ['grid', m[1], m[2], m[3], [[[col, ['num', 1.0]]]]]
    if where != 'cell' and m[1] != '3.0':
        where = 'cell'
    g = model.grid_from_model(m)
    mode = hszinc.MODE_ZINC if fmt == 'zinc' else hszinc.MODE_JSON
    if poison == 'object':
        bad = object()
    elif poison == 'naive-dt':
        bad = datetime.datetime(2020, 1, 2, 3, 4, 5)
    elif poison == 'set':
        bad = {1, 2}
    else:
        bad = hszinc.NA
        if m[1] != '2.0':
            bad = object()
    outer_m = ['grid', '3.0', [], [['o', []], ['p', []]], [[['o', m], ['p', ['num', 1.0]]], [['o', ['list', [m]]]]]]
    outer = model.grid_from_model(outer_m) if where != 'cell' else None
    if outer is not None:
        # the *same* inner Grid object sits in both rows of the outer grid
        outer[0]['o'] = g
        outer[1]['o'] = [g]
    row = g[0]
    had = col in row
    old = row.get(col, None)
    for attempt in range(2):
        row[col] = bad
        target = outer if where == 'nested' else g
        try:
            hszinc.dump(target, mode=mode)      # whether this value is refused is not C01/C02's business
        except Exception:      # noqa - nor is the exception class of a refused dump
            pass
        if had:
            row[col] = old
        else:
            del row[col]
        if where == 'cell':
            docs = [(g, [m], True), ([g, g], [m, m], False)]
        else:
            docs = [(outer, [outer_m], True), (g, [m], True)]
        for obj, want, single in docs:
            txt = guarded('dump-raises-after-failed-dump', case, hszinc.dump, obj, mode=mode)
            back = guarded('parse-raises-after-failed-dump', case, hszinc.parse, txt, mode=mode, single=single)
            back = [back] if single else back
            if len(back) != len(want):
                raise Violation('grid-count', case, 'after a failed dump: dumped %d grids, parsed %d' % (len(want), len(back)))
            for w, b in zip(want, back):
                d = model.diff(model.normalise(w), model.to_model(b), tol=(fmt == 'json'))
                if d:
                    raise Violation('roundtrip-diff', case, 'after a failed dump: %s' % d, (fmt, 'after-failed'))


FIXED_OFFSETS = sorted(set(list(range(-14 * 60, 14 * 60 + 1, 15)) + [1, -1, 7, -7, 754, -754, 315, 330, 345, 525, 765, -210, -570, 20, -44]))
FIXED_INSTANTS = ['2021-01-15T12:00:00.000000', '2021-07-15T12:00:00.000000', '1975-06-01T00:30:00.000000',
                  '2010-03-01T23:59:59.999999', '2021-03-28T01:30:00.000000', '2021-11-07T06:30:00.250000']


_TZ_POOL = {}      # offset seconds -> the one tzinfo object used for it by this process (see model.SHARED_TZ)


def fixed_offset_cases(order=0):
    """order rotates the instants, so that the first date-time written for an offset falls into another season (a writer
    that remembers what it worked out for a tzinfo is right for the first one)"""
    k = (order * 2) % len(FIXED_INSTANTS)
    instants = FIXED_INSTANTS[k:] + FIXED_INSTANTS[:k]
    for oi, off in enumerate(FIXED_OFFSETS):
        for ii, utc in enumerate(instants):
            yield {'kind': 'fixed-offset', 'ver': '3.0' if (oi + ii) % 2 else '2.0', 'offset_min': off, 'utc': utc,
                   'pos': ('cell', 'meta', 'colmeta', 'list')[(oi + ii) % 4]}


def check_fixed_offset(case, fmt, how):
    """A date-time whose tzinfo is a bare UTC offset has no Haystack zone name of its own.  The writer may refuse it
    (ValueError; which offsets it refuses is C17's subject) - but when it writes it, the text must denote the same
    instant at the same offset, whatever zone name it picked.  how = 'own' (hszinc reads its text back) or 'ref' (the
    harness's independent reader does).  Returns 'refused' or 'written'."""
    import hszinc
    from . import zinc_ref, json_ref
    v = ['dt', case['utc'], case['offset_min'] * 60, None]
    ver, pos = case['ver'], case['pos']
    if pos == 'list' and ver != '3.0':
        pos = 'cell'
    if pos == 'cell':
        m = ['grid', ver, [], [['a', []], ['b', []]], [[['a', v], ['b', ['num', 1.0]]], [['b', v]]]]
    elif pos == 'meta':
        m = ['grid', ver, [['m', v]], [['a', []]], [[['a', ['num', 1.0]]]]]
    elif pos == 'colmeta':
        m = ['grid', ver, [], [['a', [['cm', v]]]], [[['a', ['num', 1.0]]]]]
    else:
        m = ['grid', ver, [], [['a', []]], [[['a', ['list', [v, ['str', 'x'], v]]]]]]
    model.SHARED_TZ = _TZ_POOL if case.get('shared_tz', True) else None
    try:
        g = model.grid_from_model(m)
    finally:
        model.SHARED_TZ = None
    mode = hszinc.MODE_ZINC if fmt == 'zinc' else hszinc.MODE_JSON
    try:
        txt = hszinc.dump(g, mode=mode)
    except Exception:      # noqa - refusing a zone-less offset is allowed here
        return 'refused'
    if how == 'own':
        back = model.to_model(guarded('parse-raises', case, hszinc.parse, txt, mode=mode, single=True))
    elif fmt == 'zinc':
        try:
            back = zinc_ref.read_document(txt)[0][0]
        except zinc_ref.ZincRefError as e:
            raise Violation('not-conformant', case, '%s | text=%r' % (e, txt[:300]))
    else:
        try:
            back = json_ref.read_document(json.loads(txt))[0]
        except json_ref.JsonRefError as e:
            raise Violation('not-conformant', case, '%s | text=%r' % (e, txt[:300]))
    d = model.diff(model.normalise(m), back, tol=(fmt == 'json'), dt_by_instant=True)
    if d:
        raise Violation('fixed-offset-denotes-other-instant', case, '%s | text=%r' % (d, txt[:300]), (fmt, how))
    if how == 'ref':
        # the independent reader takes the offset from the ISO part; the zone name written next to it must not contradict it
        _zone_agrees(back, case, txt, fmt)
    return 'written'


def _zone_agrees(m, case, txt, fmt):
    import pytz
    if isinstance(m, list) and m and m[0] == 'dt' and len(m) > 3 and m[3] is not None:
        from hszinc import zoneinfo
        olson = zoneinfo.get_tz_map().get(m[3])
        if olson is not None:
            off = pytz.utc.localize(model.dt_parse(m[1])).astimezone(pytz.timezone(olson)).utcoffset().total_seconds()
            if int(off) != int(m[2]):
                raise Violation('zone-contradicts-offset', case, 'date-time written with offset %+d s and zone %s, whose offset at that '
                                'instant is %+d s | text=%r' % (m[2], m[3], off, txt[:300]), (fmt, 'ref'))
    elif isinstance(m, list):
        for x in m:
            if isinstance(x, list):
                _zone_agrees(x, case, txt, fmt)


def check_fixed_offset_seq(case, fmt, how):
    """replay of a violation found inside the sequence: case = a fixed-offset case + {'order': k, 'upto': index}"""
    for i, c in enumerate(fixed_offset_cases(case['order'])):
        if i > case['upto']:
            break
        try:
            check_fixed_offset(c, fmt, how)
        except Violation as v:
            if i == case['upto']:
                raise Violation(v.stage, case, v.detail, v.tags)


def fixed_offset_part(acc, fmt, how, order=0):
    n = 0
    for i, case in enumerate(fixed_offset_cases(order)):
        try:
            r = check_fixed_offset(case, fmt, how)
        except Violation as v:
            acc.violation(Violation(v.stage, dict(case, order=order, upto=i), v.detail, v.tags))
            continue
        acc.case(case, r == 'written', labels=('fixed-offset:' + r,))
        n += 1
        if n % 97 == 1:
            acc.sample(case)
    acc.exhaustive['fixed-offset date-times: %d offsets x %d instants' % (len(FIXED_OFFSETS), len(FIXED_INSTANTS))] = True


# ---------------------------------------------------------------------------------------------------------------------
# results are independent of each other: what a caller does with one parsed grid must not change a later parse

def scribble(v, depth=0):
    """overwrite / extend every mutable part of a parsed value in place (what a caller is free to do with *its* result)"""
    import hszinc
    if depth > 6:
        return
    if isinstance(v, hszinc.Grid):
        for k in list(v.metadata.keys()):
            scribble(v.metadata[k], depth + 1)
        v.metadata['zzScribble'] = 'scribbled'
        for c in list(v.column.keys()):
            cm = v.column[c]
            if hasattr(cm, 'keys'):
                for k in list(cm.keys()):
                    scribble(cm[k], depth + 1)
                try:
                    cm['zzScribble'] = hszinc.MARKER
                except Exception:      # noqa - a read-only column-metadata object cannot be scribbled on, fine
                    pass
        cols = list(v.column.keys())
        for row in v:
            for k in list(row.keys()):
                scribble(row[k], depth + 1)
                row[k] = 'scribbled'
            if cols:
                row[cols[-1]] = 12345.5
    elif isinstance(v, list):
        for x in v:
            scribble(x, depth + 1)
        v.append('scribbled')
        v.insert(0, 12345.5)
    elif isinstance(v, dict):
        for k in list(v.keys()):
            scribble(v[k], depth + 1)
            v[k] = 'scribbled'
        v['zzScribble'] = 12345.5


def check_independent_results(case, fmt):
    """case = {'kind': 'scribble', 'grids': [grid models], 'single': bool}
    parse(dump(g)) is g - also the second time, after the caller has modified the first result (and the dumped grid) in
    place.  Results sharing structure with each other or with a table inside the library fail this."""
    import hszinc
    ms = case['grids']
    single = case['single']
    mode = hszinc.MODE_ZINC if fmt == 'zinc' else hszinc.MODE_JSON
    want = [model.normalise(m) for m in ms]

    def rt_once(stage, gs=None):
        gs = gs if gs is not None else [model.from_model(m) for m in ms]
        txt = guarded('dump-raises' + stage, case, hszinc.dump, gs[0] if single else gs, mode=mode)
        back = guarded('parse-raises' + stage, case, hszinc.parse, txt, mode=mode, single=single)
        back = [back] if single else back
        if len(back) != len(want):
            raise Violation('grid-count', case, '%s: dumped %d grids, parsed %d' % (stage, len(want), len(back)))
        for i, (w, b) in enumerate(zip(want, back)):
            d = model.diff(w, model.to_model(b), tol=(fmt == 'json'), path='grid[%d]' % i)
            if d:
                raise Violation('roundtrip-diff' + stage, case, '%s | text=%r' % (d, txt[:300]), (fmt, 'scribble'))
        return gs, txt, back

    gs, txt, back = rt_once('')
    for b in back:
        scribble(b)
    # the same text again: a reader that hands out shared sub-objects now returns scribbled ones
    back2 = guarded('parse-raises-after-scribble', case, hszinc.parse, txt, mode=mode, single=single)
    back2 = [back2] if single else back2
    for i, (w, b) in enumerate(zip(want, back2)):
        d = model.diff(w, model.to_model(b), tol=(fmt == 'json'), path='grid[%d]' % i)
        if d:
            raise Violation('roundtrip-diff-after-scribble', case, 'second parse of the same text after the first result '
                            'was modified in place: %s' % d, (fmt, 'scribble'))
    # the dumped grids are the caller's too
    for g in gs:
        scribble(g)
    rt_once('-after-scribbled-input')
    if fmt == 'json':
        # pre-decoded input: the result must not be made of the caller's own objects' *later* state either way round
        obj = json.loads(txt)
        keep = copy.deepcopy(obj)
        back3 = guarded('parse-raises', case, hszinc.parse, obj, mode=mode, single=single)
        back3 = [back3] if single else back3
        for b in back3:
            scribble(b)
        if obj != keep:
            raise Violation('parse-result-aliases-input', case, 'modifying the parsed grid changed the pre-decoded '
                            'input object handed to parse()', (fmt, 'scribble'))


def check_independent_scalar(case, fmt):
    """case = {'kind': 'scribble-scalar', 'ver': v, 'value': model of a list/dict/grid value}"""
    import hszinc
    m, ver = case['value'], case['ver']
    mode = hszinc.MODE_ZINC if fmt == 'zinc' else hszinc.MODE_JSON
    want = model.normalise(m)
    txt = guarded('dump-raises', case, hszinc.dump_scalar, model.from_model(m), mode=mode, version=hszinc.Version(ver))
    for attempt in ('', '-after-scribble', '-after-second-scribble'):
        inp = copy.deepcopy(txt)
        back = guarded('parse-raises' + attempt, case, hszinc.parse_scalar, inp, mode=mode, version=hszinc.Version(ver))
        d = model.diff(want, model.to_model(back), tol=(fmt == 'json'))
        if d:
            raise Violation('roundtrip-diff' + attempt, case, '%s | text=%r' % (d, repr(txt)[:300]), (fmt, 'scribble'))
        scribble(back)
