from vf.runner import main
import sys
sys.exit(main(sys.argv[1:]))
