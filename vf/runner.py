"""CLI:  python -m vf check <ID> [--tier quick|thorough]
        python -m vf replay <file>
Exit 0 = property held on everything explored, 1 = VIOLATION line(s) printed,
2 = harness error (never reported as a violation)."""
import argparse
import collections
import importlib
import json
import multiprocessing
import os
import sys
import time
import traceback

from . import core, findings
from .core import Violation, HarnessError

NPROC = int(os.environ.get('VERIF_NPROC', '16'))


def out(line):
    s = core.real_stdout()
    s.write(line + '\n')
    s.flush()


def load_check(prop):
    return importlib.import_module('vf.checks.%s' % prop.lower())


def _task(t):
    prop, part, args, env = t
    core.silence_stdout()
    try:
        core.import_repo()
        mod = load_check(prop)
        acc = mod.run(part, args, env)
        return ('ok', part, acc.to_dict())
    except BaseException:  # noqa
        return ('err', part, traceback.format_exc())


def out_dir(kind):
    """evidence/ and replays/ under /verif - unless the run is against a scratch copy of the
    repository (VERIF_REPO set), whose output must never be mistaken for evidence about /repo."""
    if os.path.realpath(core.REPO_DIR) == '/repo':
        return os.path.join(core.VERIF_DIR, kind)
    return os.path.join(os.environ.get('VERIF_SCRATCH_OUT', '/var/tmp/vf-scratch-out'), kind)


def write_replay(prop, v):
    d = out_dir('replays')
    os.makedirs(d, exist_ok=True)
    body = {'property': prop, 'stage': v['stage'], 'case': v['case'], 'detail': v['detail']}
    txt = json.dumps(body, sort_keys=True, default=repr, ensure_ascii=True, indent=1)
    path = os.path.join(d, '%s-%012x.json' % (prop, core.h64(txt) >> 16))
    with open(path, 'w') as f:
        f.write(txt + '\n')
    return path


def replay_case(mod, stage, case, excl=frozenset()):
    """Returns None if the case passes, else a violation dict."""
    try:
        mod.replay(stage, case)
    except Violation as v:
        return v.to_dict()
    return None


def cmd_check(prop, tier, seed):
    t0 = time.time()
    core.silence_stdout()
    core.import_repo()
    mod = load_check(prop)
    entries = findings.load(prop)
    excl = frozenset(e['key'] for e in entries if e['status'] == 'open')
    unknown = excl - set(getattr(mod, 'FEATURES', {}))
    if unknown:
        raise HarnessError('open findings without a generator switch: %s' % sorted(unknown))
    env = {'tier': tier, 'seed': seed, 'excl': excl}
    tasks = [(prop, part, args, env) for (part, args) in mod.plan(tier, seed, excl)]
    results = []
    if NPROC <= 1 or len(tasks) == 1:
        results = [_task(t) for t in tasks]
    else:
        ctx = multiprocessing.get_context('fork')
        with ctx.Pool(min(NPROC, len(tasks)), maxtasksperchild=1) as pool:
            for r in pool.imap_unordered(_task, tasks, chunksize=1):
                results.append(r)
    errs = [r for r in results if r[0] != 'ok']
    if errs:
        for e in errs:
            sys.stderr.write('HARNESS-ERROR property=%s part=%s\n%s\n' % (prop, e[1], e[2]))
        return 2

    evals = 0
    nontriv = set()
    nontriv_extra = 0
    labels = collections.Counter()
    excluded = collections.Counter()
    samples = []
    parts = collections.OrderedDict()
    viols = []
    inconclusive = 0
    exhaustive = {}
    notes = []
    dupes = 0
    for _, part, d in sorted(results, key=lambda r: r[1]):
        evals += d['evals']
        nontriv |= d['nontrivial']
        nontriv_extra += d['nontrivial_extra']
        labels.update(d['labels'])
        excluded.update(d['excluded'])
        inconclusive += d['inconclusive']
        exhaustive.update(d['exhaustive'])
        notes.extend(d['notes'])
        dupes += d['ignored_dupes']
        p = parts.setdefault(d['part'], {'evaluations': 0, 'shards': 0})
        p['evaluations'] += d['evals']
        p['shards'] += 1
        for s in d['samples']:
            if sum(1 for x in samples if x.get('part') == d['part']) < 3:
                samples.append({'part': d['part'], 'case': s})
        viols.extend(d['violations'])

    # known findings: open -> witness must still fail (KNOWN-FINDING line);
    # fixed -> witness is a regression case.
    seen_known = []
    for e in entries:
        w = e.get('witness')
        if not w:
            continue
        try:
            res = replay_case(mod, w['stage'], w['case'])
        except Exception:
            sys.stderr.write('HARNESS-ERROR replaying witness %s\n%s\n' % (e['key'], traceback.format_exc()))
            return 2
        evals += 1
        if e['status'] == 'open':
            if res is not None:
                out('KNOWN-FINDING: property=%s %s [%s]' % (prop, e['what'], e['key']))
                seen_known.append(e['key'])
            else:
                notes.append('open finding %s no longer reproduces' % e['key'])
                sys.stderr.write('NOTE property=%s open finding %s no longer reproduces\n' % (prop, e['key']))
        else:
            if res is not None:
                res['detail'] = 'regression of fixed finding %s: %s' % (e['key'], res['detail'])
                viols.append(res)

    # de-duplicate violations by signature
    uniq = collections.OrderedDict()
    for v in viols:
        sig = (v['stage'], v['detail'].split(':')[0][:60], tuple(v.get('tags', ())))
        uniq.setdefault(sig, v)
    replay_paths = []
    for v in uniq.values():
        path = write_replay(prop, v)
        replay_paths.append(path)
        out('VIOLATION property=%s replay=%s' % (prop, path))
        sys.stderr.write('  stage=%s detail=%s\n' % (v['stage'], v['detail'][:400]))

    wall = time.time() - t0
    ev = {
        'property_id': prop, 'tier': tier, 'seed': seed, 'level': 'exploration',
        'coverage': {
            'evaluations': evals,
            'distinct_nontrivial': len(nontriv) + nontriv_extra,
            'rule': mod.RULE,
            'samples': samples[:12],
            'exhaustive': bool(exhaustive) and getattr(mod, 'EXHAUSTIVE_CLAIM', False),
            'exhaustive_parts': exhaustive,
            'parts': parts,
            'labels': dict(sorted(labels.items())),
            'excluded_by_open_findings': dict(excluded),
            'open_finding_switches': sorted(excl),
            'inconclusive': inconclusive,
            'known_findings_seen': seen_known,
            'duplicate_violations_skipped': dupes,
            'notes': notes[:20],
        },
        'assumptions': list(getattr(mod, 'ASSUMPTIONS', [])),
        'wall_s': round(wall, 2),
        'violations': len(uniq),
    }
    d = out_dir('evidence')
    os.makedirs(d, exist_ok=True)
    with open(os.path.join(d, '%s.json' % prop), 'w') as f:
        json.dump(ev, f, indent=1, sort_keys=True, default=repr)
        f.write('\n')
    out('%s tier=%s seed=%d evaluations=%d distinct_nontrivial=%d violations=%d known=%d wall=%.1fs'
        % (prop, tier, seed, evals, ev['coverage']['distinct_nontrivial'], len(uniq), len(seen_known), wall))
    return 1 if uniq else 0


def cmd_replay(path):
    core.silence_stdout()
    core.import_repo()
    with open(path) as f:
        body = json.load(f)
    mod = load_check(body['property'])
    res = replay_case(mod, body['stage'], body['case'])
    if res is None:
        out('replay passed: property=%s stage=%s' % (body['property'], body['stage']))
        return 0
    out('VIOLATION property=%s replay=%s' % (body['property'], os.path.abspath(path)))
    sys.stderr.write('  stage=%s detail=%s\n' % (res['stage'], res['detail'][:1000]))
    return 1


def main(argv):
    ap = argparse.ArgumentParser(prog='vf')
    sub = ap.add_subparsers(dest='cmd', required=True)
    c = sub.add_parser('check')
    c.add_argument('property')
    c.add_argument('--tier', default=os.environ.get('VERIF_TIER', 'quick'), choices=['quick', 'thorough'])
    r = sub.add_parser('replay')
    r.add_argument('path')
    a = ap.parse_args(argv)
    try:
        if a.cmd == 'check':
            seed = int(os.environ.get('VERIF_SEED', '1') or '1')
            return cmd_check(a.property.upper(), a.tier, seed)
        return cmd_replay(a.path)
    except SystemExit:
        raise
    except BaseException:  # noqa
        sys.stderr.write('HARNESS-ERROR\n%s\n' % traceback.format_exc())
        return 2
