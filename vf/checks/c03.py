"""C03 - ZINC reader accepts the whole surface syntax and decodes it correctly."""
from .. import gen, model, rt, zinc_ref
from ..core import Acc, Violation, guarded, run_hypothesis, shard_seed

PROPERTY = 'C03'
RULE = ('a model grid (numbers drawn as literals: sign, digit groups with "_" separators, fraction, e/E exponent; date-times '
        'with a mapped zone or zone-less with any whole-minute offset) is rendered by an independent ZINC writer under a '
        'spelling plan (one small integer per decision: 0-2 blanks before/after each comma, empty vs N null cells, raw vs '
        'named vs \\uXXXX (upper/lower hex) escapes per character, $ raw or escaped, T/t, Z/z/+00:00, 0-6 fractional digits, '
        'trailing comma and blanks in lists, padded/double-blank dicts, bare vs explicit marker tags, empty list/dict '
        'spellings), LF or CRLF, final newline or not, 0-3 grids per document, str or bytes in a charset able to encode it, '
        'single True/False; hszinc.parse must return exactly the denoted grids (kind-strict comparator). parse_scalar gets '
        'the same per token. A deterministic table crosses every catalogue value with every uniform plan. Non-trivial = '
        'the plan used at least one non-plain spelling, or CRLF / no final newline / bytes / several grids; distinct by '
        '(models, plan, layout).')
ASSUMPTIONS = ['the writer only emits constructs of the pinned grammar (DESIGN.md Appendix A); a line never starts or ends '
               'with a blank; a null cell is spelled empty only in grids with >= 2 columns',
               'URIs contain no C0 controls and only the escapes \\\\ \\` \\uXXXX', 'fractional seconds have at most 6 digits',
               'the writer is cross-checked against the independent reader of C04 on every generated document']
from .c01 import SIZES_RULE  # noqa: E402
RULE = RULE + SIZES_RULE
FEATURES = {}
EXHAUSTIVE_CLAIM = False
CHARSETS = ['utf-8', 'utf-8-sig', 'utf-16', 'utf-32', 'latin-1', 'cp1252', 'shift_jis']


def render(case):
    if 'raw_text' in case:      # an empty document spelled as line ends only
        return case['raw_text'], zinc_ref.Plan()
    txt, plan = zinc_ref.write_document(case['grids'], case.get('choices', ()), case.get('eol', '\n'), case.get('final_nl', True))
    return txt, plan


def check_doc(case, acc=None):
    import hszinc
    ms = case['grids']
    txt, plan = render(case)
    # self-check of the harness: the independent reader must read the writer's text back to the model
    try:
        mine, _ = zinc_ref.read_document(txt) if 'raw_text' not in case else ([], None)
    except zinc_ref.ZincRefError as e:
        raise AssertionError('harness writer/reader disagree: %s on %r' % (e, txt))
    for m, b in zip(ms, mine):
        d = model.diff(model.normalise(m), b)
        if d:
            raise AssertionError('harness writer/reader disagree: %s on %r' % (d, txt))
    inp = txt
    kw = {}
    form = case.get('input', 'str')
    if form.startswith('bytes:'):
        cs = form.split(':', 1)[1]
        try:
            inp = txt.encode(cs)
            if inp.decode(cs) != txt:
                raise UnicodeError
        except (UnicodeError, LookupError):
            cs = 'utf-8'
            inp = txt.encode(cs)
        kw['charset'] = cs
    single = case.get('single', False)
    if acc is not None:
        for k in plan.used:
            acc.label('spelling:' + k)
    tags = ('crlf' if case.get('eol') == '\r\n' else 'lf', 'nl' if case.get('final_nl', True) else 'no-final-nl')
    got = guarded('parse-raises', dict(case, text=txt), hszinc.parse, inp, single=single, **dict(kw, **rt.mode_kw('zinc', len(txt))))
    if single:
        if not ms:
            if got is not None:
                raise Violation('empty-document', case, 'single=True on an empty document returned %r' % (got,))
            return plan
        if not isinstance(got, hszinc.Grid):
            raise Violation('parse-type', case, 'single=True returned %s' % type(got).__name__)
        got = [got]
        want = ms[:1]
    else:
        if not isinstance(got, list):
            raise Violation('parse-type', case, 'single=False returned %s' % type(got).__name__)
        want = ms
        if len(got) != len(want):
            raise Violation('grid-count', dict(case, text=txt), 'document holds %d grids, parse returned %d' % (len(want), len(got)), tags)
    for i, (m, b) in enumerate(zip(want, got)):
        d = model.diff(model.normalise(m), model.to_model(b), path='grid[%d]' % i)
        if d:
            raise Violation('decoded-other-value', dict(case, text=txt), '%s | text=%r' % (d, txt[:400]),
                            (d.split(':')[1].split()[0],) + tags)
    return plan


def check_scalar(case, acc=None):
    import hszinc
    m, ver = case['value'], case['ver']
    txt, plan = zinc_ref.write_scalar(m, ver, case.get('choices', ()), case.get('eol', '\n'))
    mine, _ = zinc_ref.read_scalar(txt, ver)
    if model.diff(model.normalise(m), mine):
        raise AssertionError('harness writer/reader disagree on %r' % txt)
    if acc is not None:
        for k in plan.used:
            acc.label('spelling:' + k)
    got = guarded('parse-raises', dict(case, text=txt), hszinc.parse_scalar, txt, version=ver, **rt.mode_kw('zinc', len(txt)))
    d = model.diff(model.normalise(m), model.to_model(got))
    if d:
        raise Violation('decoded-other-value', dict(case, text=txt), '%s | text=%r' % (d, txt[:300]), (m[0],))
    return plan


def unmapped_zone_cases():
    """sequences of date-times in which official Haystack zone names that this host's zone database does not map (the
    reader keeps the stated offset for them) alternate with mapped ones and repeat"""
    from hszinc import zoneinfo
    mapped = zoneinfo.get_tz_map()
    official = getattr(zoneinfo, 'HAYSTACK_TIMEZONES_SET', None) or ()
    unmapped = sorted(n for n in official if n not in mapped)[:24] or ['Knox', 'Ushuaia', 'Vevay']
    ms = [['Brisbane', 600], ['UTC', 0], ['Honolulu', -600], ['Kolkata', 330], ['Tokyo', 540]]
    for i, u in enumerate(unmapped):
        u2 = unmapped[(i + 5) % len(unmapped)]
        m1, m2 = ms[i % len(ms)], ms[(i + 2) % len(ms)]
        off = [-300, -360, -180, 60, 345][i % 5]
        seq = [m1 + ['2021-06-01T12:00:00'], [u, off, '2021-06-01T12:00:00'], [u, off, '2021-06-01T13:30:00.250'], m2 + ['2021-01-01T00:00:00'],
               [u, off - 60, '2021-12-01T08:00:00'], [u2, off, '2021-06-01T12:00:00'], [u, off, '2021-06-01T12:00:00'], m1 + ['2021-06-02T12:00:00'],
               [u2, off + 60, '2021-06-01T12:00:00'], [u2, off + 60, '2021-06-01T12:00:01']]
        for ver in ('2.0', '3.0'):
            yield {'zone-sequence': seq, 'ver': ver, 'as': 'cells' if i % 2 else 'scalars'}
            yield {'zone-sequence': seq[1:], 'ver': ver, 'as': 'scalars' if i % 2 else 'cells'}


def check_zone_sequence(case):
    import datetime
    import hszinc
    seq, ver = case['zone-sequence'], case['ver']

    def spell(name, off, local):
        sign = '-' if off < 0 else '+'
        o = 'Z' if (off == 0 and name == 'UTC') else '%s%02d:%02d' % (sign, abs(off) // 60, abs(off) % 60)
        return '%s%s %s' % (local, o, name)

    def want(name, off, local):
        t = datetime.datetime.fromisoformat(local) - datetime.timedelta(minutes=off)
        return ['dt', t.strftime('%Y-%m-%dT%H:%M:%S.%f'), off * 60, name]
    toks = [spell(*x) for x in seq]
    wants = [want(*x) for x in seq]
    if case['as'] == 'cells':
        txt = 'ver:"%s" first:%s\nts,n\n' % (ver, toks[0]) + ''.join('%s,%d\n' % (t, i) for i, t in enumerate(toks))
        g = guarded('parse-raises', dict(case, text=txt), hszinc.parse, txt, single=True, **rt.mode_kw('zinc', len(txt)))
        got = [model.to_model(r['ts']) for r in g]
    else:
        got = [model.to_model(guarded('parse-raises', dict(case, text=t), hszinc.parse_scalar, t, version=ver, **rt.mode_kw('zinc', len(t)))) for t in toks]
    for i, (w, b, t) in enumerate(zip(wants, got, toks)):
        d = model.diff(w, b, dt_by_instant=True)
        if d:
            raise Violation('decoded-other-value', case, 'date-time %d of the sequence, %r: %s' % (i, t, d), ('zone-sequence',))


def catalogue_for_table(ver):
    out = []
    for m in gen.catalogue_scalars(ver):
        if m[0] == 'uri' and any(ord(c) < 0x20 for c in m[1]):
            continue
        if m[0] == 'dt' and m[3] not in ('UTC', 'New_York', 'London', 'Kolkata', 'Brisbane', 'Chatham', 'Lord_Howe', 'Port-au-Prince',
                                           'Ust-Nera', 'GMT+10', 'GMT-14', 'GMT+1', 'DumontDUrville', 'St_Johns'):
            continue
        out.append(m)
    out += [['num', 1000.5, '1_000.5_0'], ['num', 1e3, '1E3'], ['num', 1.5e-7, '15e-8'], ['num', -0.0, '-0'],
            ['num', 7.0, '007'], ['qty', 12.5, 'kW', '1_2.5'], ['qty', 1e5, u'\xb0C', '1e+05'], ['num', 1e10, '1_0e0_9'],
            ['dt', '2020-06-01T10:00:00.000000', 3600, None], ['dt', '2020-06-01T10:00:00.120000', -34200, None],
            ['dt', '2020-06-01T10:00:00.000001', 0, None], ['time', 1, 2, 3, 120000]]
    return out


def plan(tier, seed, excl):
    q = tier == 'quick'
    t = [('table', {'ver': v, 'shard': i, 'of': 4}) for v in ('2.0', '3.0') for i in range(4)]
    t += [('scalars', {'shard': i, 'n': 2000 if q else 50000}) for i in range(4)]
    t += [('docs', {'shard': i, 'n': 300 if q else 8000}) for i in range(16)]
    t.append(('empty', {}))
    t.append(('unmapped-zones', {}))
    t += [('sizes', {'shard': i, 'of': 8, 'tier': tier}) for i in range(8)]
    return t


def run(part, args, env):
    from hypothesis import strategies as st
    acc = Acc(part)
    excl = env['excl']
    if part == 'table':
        ver = args['ver']
        n = 0
        for i, m in enumerate(catalogue_for_table(ver)):
            if i % args['of'] != args['shard']:
                continue
            for k in range(12):
                for shape in ('scalar', 'cell', 'meta', 'list', 'dict'):
                    if shape in ('list', 'dict') and ver != '3.0':
                        continue
                    if shape == 'scalar':
                        case = {'kind': 'scalar', 'ver': ver, 'value': m, 'choices': [k], 'eol': '\r\n' if k % 2 else '\n'}
                        fn = check_scalar
                    else:
                        if shape == 'cell':
                            if m[0] == 'null':
                                continue
                            g = ['grid', ver, [], [['a', []], ['b', []]], [[['a', m]], [['b', m]], [['a', m], ['b', m]]]]
                        elif shape == 'meta':
                            g = ['grid', ver, [['m', m]], [['a', [['cm', m]]]], []]
                        elif shape == 'list':
                            g = ['grid', ver, [], [['a', []]], [[['a', ['list', [m, m]]]]]]
                        else:
                            g = ['grid', ver, [], [['a', []]], [[['a', ['dict', [['k', m], ['j', ['marker']]]]]]]]
                        case = {'kind': 'doc', 'grids': [g], 'choices': [k, (k + 1) % 12, (k * 5) % 12],
                                'eol': '\r\n' if k % 2 else '\n', 'final_nl': k % 3 != 0, 'single': k % 4 == 0,
                                'input': 'str' if k % 5 else 'bytes:utf-8'}
                        fn = check_doc
                    n += 1
                    try:
                        p = fn(case, acc)
                        acc.case(case, k != 0, labels=(m[0] + '@' + shape,))
                    except Violation as v:
                        acc.violation(v)
                    if n % 4003 == 1:
                        acc.sample(case)
        acc.exhaustive['catalogue value x uniform spelling plan x shape table'] = True
    elif part == 'sizes':
        from .c01 import sizes_part

        def one(case):
            n = case['sized'][1]
            c = dict(case, choices=[n % 12] if n % 2 else [], eol='\r\n' if n % 3 == 0 else '\n', final_nl=n % 5 != 0,
                     input='str' if n % 4 else 'bytes:utf-8')
            check_doc(c, acc)
        sizes_part(acc, args, one)
    elif part == 'unmapped-zones':
        n = 0
        for case in unmapped_zone_cases():
            try:
                check_zone_sequence(case)
                acc.case(case, True, labels=('unmapped-zone-sequence',))
                n += 1
                if n % 15 == 1:
                    acc.sample(case)
            except Violation as v:
                acc.violation(v)
    elif part == 'empty':
        for single in (True, False):
            for inp in ('str', 'bytes:utf-8'):
                for nl in (True, False):
                    case = {'kind': 'doc', 'grids': [], 'single': single, 'input': inp, 'final_nl': nl}
                    if nl:
                        for raw in ('\n', '\r\n', '\n\n'):
                            c2 = dict(case, raw_text=raw)
                            acc.case(c2, True, labels=('empty-document',))
                            try:
                                check_doc(c2, acc)
                            except Violation as v:
                                acc.violation(v)
                    acc.case(case, True, labels=('empty-document',))
                    acc.sample(case)
                    try:
                        check_doc(case, acc)
                    except Violation as v:
                        acc.violation(v)
    elif part == 'scalars':
        strat = st.sampled_from(['2.0', '3.0']).flatmap(lambda v: st.builds(
            lambda m, c, eol: {'kind': 'scalar', 'ver': v, 'value': m, 'choices': c, 'eol': eol},
            gen._spelled_values(v, 1, frozenset(excl), False), gen.spelling_plans(30), st.sampled_from(['\n', '\n', '\r\n'])))

        def body(case):
            p = check_scalar(case, acc)
            acc.case(case, bool(p.used) or len(case['value']) > 2 and case['value'][0] in ('num', 'qty'),
                     labels=(case['value'][0] + '@scalar',))
            if acc.want_sample():
                acc.sample(case)
        run_hypothesis(acc, body, strat, args['n'], shard_seed(env['seed'], PROPERTY, 's', args['shard']))
    else:
        strat = st.builds(
            lambda gs, c, eol, fnl, single, inp: {'kind': 'doc', 'grids': gs, 'choices': c, 'eol': eol, 'final_nl': fnl,
                                                  'single': single, 'input': inp},
            st.lists(gen.spelled_grids(None, 2, excl), min_size=1, max_size=3) | gen.spelled_grids(None, 2, excl).map(lambda g: [g]),
            gen.spelling_plans(), st.sampled_from(['\n', '\n', '\r\n']), st.sampled_from([True, True, False]), st.booleans(),
            st.sampled_from(['str', 'str'] + ['bytes:' + c for c in CHARSETS]))

        def body(case):
            p = check_doc(case, acc)
            layout = case['eol'] != '\n' or not case['final_nl'] or case['input'] != 'str' or len(case['grids']) > 1
            acc.case(case, bool(p.used) or layout,
                     labels=['docs', 'eol:' + ('crlf' if case['eol'] != '\n' else 'lf'), 'final_nl:%s' % case['final_nl'],
                             'ngrids:%d' % len(case['grids']), 'input:' + case['input'], 'single:%s' % case['single']])
            if acc.want_sample() and len(repr(case)) < 1200:
                acc.sample(dict(case, text=render(case)[0]))
        run_hypothesis(acc, body, strat, args['n'], shard_seed(env['seed'], PROPERTY, 'd', args['shard']))
    return acc


def replay(stage, case):
    if 'zone-sequence' in case:
        return check_zone_sequence(case)
    case = dict(case)
    case.pop('text', None)
    if case['kind'] == 'scalar':
        check_scalar(case)
    else:
        check_doc(case)
