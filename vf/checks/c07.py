"""C07 - anything parsed can be re-dumped, transcoded and re-parsed unchanged."""
import json

from .. import gen, json_ref, model, zinc_ref
from ..core import Acc, Violation, describe_exc, guarded, run_hypothesis, shard_seed

PROPERTY = 'C07'
RULE = ('documents produced by the independent ZINC and JSON writers of C03/C05 (so the grids hold parser-made values: '
        'fixed-offset tzinfo from zone-less date-times with whole-hour offsets, plain-dict column metadata, ints from raw JSON '
        'numbers, version labels 2.0/3.0, their short spellings 2 and 3, and the non-official 1.0, 2.0.1, 2.5, 3.0.0, 4.0 with data legal under the rules of the nearest official version) are parsed '
        'by hszinc; then (1) dump in both formats must not raise, (2) parsing each dump gives an equal grid (kind-strict '
        'comparator; six-decimal tolerance after a JSON hop; date-times by instant and offset), also along the chains '
        'ZINC->JSON->ZINC and JSON->ZINC->JSON, (3) dumping does not change the grid (model and row identity) and two dumps '
        'are identical, (4) N(x)=dump(parse(x)) is idempotent as text in both formats. (5) a table of odd tokens (malformed hex/base64 payloads, out-of-range numbers, times, dates, coordinates, odd Refs, Bins, units, look-alike JSON strings) in every position: whatever parse accepts must be dumpable in both formats. Non-trivial = document holds a '
        'parser-made date-time, a non-official version label, a raw JSON number or nested data; distinct by (models, plan).')
ASSUMPTIONS = ['zone-less date-times use whole-hour offsets -12..+14 (a zone with that offset always exists, otherwise '
               'ValueError would be legitimate per C17)',
               'a grid holding 3.0-only data under a pre-3.0 label is not generated (that is C10)',
               'Bin values are not generated under the non-official labels 1.0/2.5 (which Bin spelling a 2.5 document uses is undefined)']
FEATURES = {}
EXHAUSTIVE_CLAIM = False
ALIASES = {'2.0': ['2.0', '2', '1.0', '2.0'], '3.0': ['3.0', '3', '3.0.0', '4.0', '2.5', '2.0.1', '3.0 "rc\\1"']}


def relabel(m, pick):
    """replace the version label of a grid model (and nested grids) by a compatible alias"""
    def rv(v):
        if v[0] == 'grid':
            return relabel(v, pick)
        if v[0] == 'list':
            return ['list', [rv(x) for x in v[1]]]
        if v[0] == 'dict':
            return ['dict', [[k, rv(x)] for k, x in v[1]]]
        return v
    ver = ALIASES[m[1]][pick % len(ALIASES[m[1]])]
    return ['grid', ver, [[k, rv(v)] for k, v in m[2]], [[n, [[k, rv(v)] for k, v in cm]] for n, cm in m[3]],
            [[[c, rv(v)] for c, v in r] for r in m[4]]]


def has_kind(m, kinds):
    return any(k in kinds for _, k in model.kinds(m))


_VAR = [0]


def _mode(fmt):
    """the mode constant or one of its documented aliases, rotated from case to case"""
    from .. import rt
    return rt._mode(fmt, _VAR[0])


_INTERLOPERS = []
_INTERLOPER_DOCS = [
    'ver:"3.0"\nts,v\n2021-01-15T12:30:00-08:00,1\n2021-07-15T12:30:00-08:00,2\n2021-07-15T12:30:00-07:00,3\n',
    'ver:"2.0"\nts,v\n2021-07-15T12:30:00+01:00,1\n2021-01-15T12:30:00+01:00,2\n2021-01-15T12:30:00Z,3\n',
    'ver:"3.0"\nts,v\n2021-03-01T00:00:00+05:30,[2021-07-01T00:00:00-10:00, "x"]\n2021-11-01T00:00:00+10:00,{a:2021-01-01T00:00:00+10:00}\n',
    'ver:"3.0" m:2021-06-01T06:00:00-05:00\na z:2021-12-01T06:00:00-05:00,b\n"s",`u`\n@r "d",1kW\n',
]


def interlopers(var):
    """two small parser-made grids (zone-less date-times of both seasons, strings, refs) to be dumped between two dumps
    of the grid under test; parsed once per process"""
    import hszinc
    if not _INTERLOPERS:
        for t in _INTERLOPER_DOCS:
            try:
                _INTERLOPERS.append(hszinc.parse(t, mode=hszinc.MODE_ZINC, single=True))
            except Exception:      # noqa - a tree that cannot read one of them simply has fewer interlopers
                pass
    if not _INTERLOPERS:
        return []
    n = len(_INTERLOPERS)
    return [_INTERLOPERS[var % n], _INTERLOPERS[(var // n + 1) % n]]


def check(case):
    """case = {'src': 'zinc'|'json', 'grids': [models], 'choices': [...], 'multi': bool}"""
    import hszinc
    src = case['src']
    ms = case['grids']
    multi = case.get('multi', False)
    if src == 'zinc':
        doc, _ = zinc_ref.write_document(ms if multi else ms[:1], case.get('choices', ()))
    else:
        obj, _ = json_ref.write_document(ms, case.get('choices', ()), multi)
        doc = json.dumps(obj)
    shown = dict(case, doc=doc[:1200])
    _VAR[0] = len(doc)
    g0s = guarded('source-parse-raises', shown, hszinc.parse, doc, mode=_mode(src), single=False)
    want = ms if multi else ms[:1]
    if len(g0s) != len(want):
        raise Violation('source-parse', shown, 'source document holds %d grids, parse gave %d' % (len(want), len(g0s)))
    base = [model.to_model(g) for g in g0s]
    rows_before = [[id(r) for r in g] for g in g0s]
    raw_before = [model.raw_snapshot(g) for g in g0s]
    arg = g0s if multi else g0s[0]
    texts = {}
    for fmt in ('zinc', 'json'):
        t1 = guarded('redump-raises', shown, hszinc.dump, arg, mode=_mode(fmt))
        t1b = guarded('redump-raises', shown, hszinc.dump, arg, mode=_mode(fmt))
        if t1 != t1b:
            raise Violation('dump-not-deterministic', shown, 'two %s dumps of one grid differ' % fmt, (fmt,))
        # ... also when other grids were dumped in between (a pure function of the grid does not remember them)
        for other in interlopers(len(doc)):
            try:
                hszinc.dump(other, mode=_mode('zinc'))
                hszinc.dump(other, mode=_mode('json'))
            except Exception:      # noqa - what happens to the interloper is not this case's subject
                pass
        t1c = guarded('redump-raises', shown, hszinc.dump, arg, mode=_mode(fmt))
        if t1 != t1c:
            raise Violation('dump-not-deterministic', shown, 'two %s dumps of one grid differ after other grids were dumped in between' % fmt, (fmt, 'interleaved'))
        for b, g, rb, raw in zip(base, g0s, rows_before, raw_before):
            d = model.diff(b, model.to_model(g))
            if not d and model.raw_snapshot(g) != raw:
                d = 'row dicts / metadata were touched (keys or value objects changed)'
            if d or [id(r) for r in g] != rb:
                raise Violation('dump-mutated-grid', shown, 'dumping as %s changed the grid: %s' % (fmt, d or 'row objects replaced'), (fmt,))
        texts[fmt] = t1
        g1s = guarded('reparse-raises', dict(shown, text=t1[:600]), hszinc.parse, t1, mode=_mode(fmt), single=False)
        if len(g1s) != len(g0s):
            raise Violation('reparse-count', shown, '%s: dumped %d grids, parsed %d' % (fmt, len(g0s), len(g1s)), (fmt,))
        for i, (b, g1) in enumerate(zip(base, g1s)):
            d = model.diff(b, model.to_model(g1), tol=(fmt == 'json'), dt_by_instant=True, path='grid[%d]' % i)
            if d:
                raise Violation('reparse-diff', dict(shown, text=t1[:600]), '%s->%s: %s' % (src, fmt, d), (src, fmt, d.split(':')[1].split()[0]))
        # chain: back into the source format
        t2 = guarded('chain-dump-raises', shown, hszinc.dump, g1s if multi else g1s[0], mode=_mode(src))
        g2s = guarded('chain-parse-raises', dict(shown, text=t2[:600]), hszinc.parse, t2, mode=_mode(src), single=False)
        for i, (b, g2) in enumerate(zip(base, g2s)):
            d = model.diff(b, model.to_model(g2), tol=True, dt_by_instant=True, path='grid[%d]' % i)
            if d:
                raise Violation('chain-diff', dict(shown, text=t2[:600]), '%s->%s->%s: %s' % (src, fmt, src, d), (src, fmt))
        # idempotence of normalisation in format fmt
        def norm(x):
            gs = hszinc.parse(x, mode=_mode(fmt), single=False)
            return hszinc.dump(gs if multi else gs[0], mode=_mode(fmt))
        # N(x) = dump(parse(x)); x = the source document (same format) or the transcoded text (a document of fmt)
        n1 = t1 if fmt == src else guarded('normalise-raises', shown, norm, t1)
        n2 = guarded('normalise-raises', shown, norm, n1)
        if n2 != n1:
            raise Violation('not-idempotent', dict(shown, once=n1[:500], twice=n2[:500]),
                            'normalising %s text twice differs from once' % fmt, (fmt,))
    return True


ODD_ZINC = ['hex("zz")', 'hex("abc")', 'hex("DEADBEEF")', 'hex("")', 'hex("de ad")', 'b64("!!")', 'b64("QQ")', 'b64("QUJD=")', 'b64("")',
            'b64("QU JD")', 'Hex("zz")', 'B64("!!")', 'Foo("")', 'X("\\u0000")', '1e999', '-1e999', '1e-999', '0.1e1', '1_000', '5_', '5kW/h', '5%', '5$',
            '24:00:00', '23:59:60', '00:00:00.0000001', '12:00', '0000-01-01', '0001-01-01', '9999-12-31', '2021-02-29', '2020-02-29',
            '2020-01-01T00:00:00Z', '2020-01-01T00:00:00Z UTC', '2020-01-01T00:00:00+00:00 UTC', '2020-01-01T00:00:00-00:00', '2020-01-01T00:00:00+14:00',
            '2020-01-01T00:00:00+15:00', '2020-01-01T00:00:00+05:17', '2020-01-01T00:00:00+05:17 Kolkata', '2020-01-01T00:00:00Z London',
            '2020-01-01T00:00:00+10:00 Nowhere', '2020-01-01T00:00:00-05:00 Knox', '2020-01-01T24:00:00Z', '0002-01-01T00:00:00+14:00', '9998-12-31T23:59:59-12:00',
            'C(91,181)', 'C(-90.0,-180.0)', 'C(1e2,1)', 'C(1,2', 'C(NaN,1)', 'Bin(x)', 'Bin(text/plain; charset=utf-8)', 'Bin("a b")', 'Bin()', '@', '@a b', '@a "d" x',
            '@-', '@~', '`a b`', '`\\x`', '"\\x"', '"\\ud800"', '"\\udc00\\ud800"', 'T', 'F', 'M', 'R', 'N', 'NA', 'INF', '-INF', 'NaN', '-NaN', '+1', '.5', '5.', '0x10',
            '[1,', '[,]', '[1 2]', '[[1]]', '{a}', '{a:}', '{a b}', '{a:1 b:2}', '{a:1,b:2}', '{-a}', '{a:{b:{c:M}}}', '<<ver:"3.0"\nx\n>>',
            '<<ver:"2.0"\nx\nNA\n>>', '<<\nver:"3.0"\nx\n1\n>>', 'True', 'null', 'nan', 'inf']
ODD_JSON = ['x:hex:zz', 'x:hex:abc', 'x:hex:DEADBEEF', 'x:hex:', 'x:b64:!!', 'x:b64:QQ', 'x:b64:', 'x:Foo:', 'x:Foo', 'x:', 'x::', 'n:', 'n:abc', 'n:1e999',
            'n:-1e999', 'n:1 ', 'n:1  kW', 'n: 1', 'n:1 kW m', 'n:INF', 'n:-INF', 'n:NaN', 'n:inf', 'n:nan', 'n:+1', 'n:.5', 'n:0x10', 'n:1_0', 'h:24:00:00',
            'h:12:00', 'h:12', 'h:12:00:00.0000001', 'h:', 'd:0000-01-01', 'd:2021-02-29', 'd:2020-1-1', 'd:', 't:2020-01-01T00:00:00Z',
            't:2020-01-01T00:00:00Z UTC', 't:2020-01-01T00:00:00+05:17', 't:2020-01-01T00:00:00+05:17 Kolkata', 't:2020-01-01T00:00:00Z London',
            't:2020-01-01T00:00:00+10:00 Nowhere', 't:2020-01-01T00:00:00-05:00 Knox', 't:2020-01-01T00:00:00', 't:2020-01-01', 't:', 'c:91,181', 'c:1', 'c:1,2,3',
            'c:a,b', 'c:', 'c:1e2,1', 'b:', 'b:a b', 'r:', 'r: d', 'r:a b c', 'r:a  ', 'u:', 'u:a b', 's:', 'm:', 'm:x', 'z:', 'z:x', '-:', '-:x', 'x:y', 'q:1', ':',
            'a:b', 'ab', 'a', '', 'N', 'NA', 'T', 'M', 'null', 1, -0.0, 1e308, 2 ** 63, True, None, [], {}, [[1]], {'a': {'b': 'm:'}}, [None], {'': 1}, {'A': 1}]


def raw_cases():
    for i, tok in enumerate(ODD_ZINC):
        for ver in ('2.0', '3.0'):
            for k, doc in enumerate(('ver:"%s"\na,b\n%s,1\n', 'ver:"%s" m:%s\na\n1\n', 'ver:"%s"\na x:%s\n1\n', 'ver:"%s"\na\n[%s]\n', 'ver:"%s"\na\n{t:%s}\n')):
                if k >= 3 and ver != '3.0':
                    continue
                yield {'raw': doc % (ver, tok), 'src': 'zinc'}
    for i, tok in enumerate(ODD_JSON):
        for ver in ('2.0', '3.0'):
            for k in range(5):
                if k >= 3 and ver != '3.0':
                    continue
                cell = [tok, 1, 1, [tok, 's:x'], {'t': tok}][k]
                obj = {'meta': dict({'ver': ver}, **({'m': tok} if k == 1 else {})), 'cols': [dict({'name': 'a'}, **({'x': tok} if k == 2 else {}))],
                       'rows': [{'a': cell}]}
                yield {'raw': json.dumps(obj), 'src': 'json'}


def check_raw(case):
    """case = {'raw': text, 'src': fmt} - a text that is not necessarily well-formed.  Whether hszinc accepts it is not
    C07's business; but *if* parse returns grids, they can be dumped in both formats without error (what an ill-formed but
    tolerated text denotes is not defined, so nothing is compared).  Returns 'rejected' | 'accepted'."""
    import hszinc
    _VAR[0] = len(case['raw'])
    try:
        g0s = hszinc.parse(case['raw'], mode=_mode(case['src']), single=False)
    except Exception:  # noqa - a refused text is out of scope here (C09 / C05 decide how it has to be refused)
        return 'rejected'
    try:
        base = [model.to_model(g) for g in g0s]
    except Exception:  # noqa - parse produced something the harness has no model for; only the no-raise part applies
        base = None
    for fmt in ('zinc', 'json'):
        try:
            t1 = hszinc.dump(g0s, mode=_mode(fmt))
        except ValueError as e:
            # a date-time read with a bare offset that no Haystack zone observes cannot be written (no zone name exists
            # for it): ValueError is the documented outcome (C17), for this value only
            if base is not None and any(v[0] == 'dt' and v[3] is None for b in base for v in _walk(b)):
                return 'accepted-unwritable-offset'
            raise Violation('redump-raises', case, 'raised ' + describe_exc(e), (type(e).__name__,))
        except Exception as e:  # noqa
            raise Violation('redump-raises', case, 'raised ' + describe_exc(e), (type(e).__name__,))
    return 'accepted'


def nontrivial(ms, src):
    for m in ms:
        if m[1] not in ('2.0', '3.0') or model.depth(m) > 1:
            return True
        for v in _walk(m):
            if v[0] == 'dt' and v[3] is None:
                return True
            if v[0] == 'num' and len(v) > 2 and v[2] == 'raw':
                return True
    return False


def _walk(m):
    yield m
    if m[0] == 'list':
        for x in m[1]:
            for y in _walk(x):
                yield y
    elif m[0] == 'dict':
        for _, x in m[1]:
            for y in _walk(x):
                yield y
    elif m[0] == 'grid':
        for _, v in m[2]:
            for y in _walk(v):
                yield y
        for _, cm in m[3]:
            for _, v in cm:
                for y in _walk(v):
                    yield y
        for r in m[4]:
            for _, v in r:
                for y in _walk(v):
                    yield y


def plan(tier, seed, excl):
    q = tier == 'quick'
    return [('docs', {'src': s, 'shard': i, 'n': 700 if q else 6000}) for s in ('zinc', 'json') for i in range(8)] + [('odd-texts', {})]


def run(part, args, env):
    from hypothesis import strategies as st
    acc = Acc(part)
    excl = frozenset(env['excl'])
    if part == 'odd-texts':
        for case in raw_cases():
            try:
                r = check_raw(case)
                acc.case(case, r == 'accepted', labels=('odd-text:%s:%s' % (case['src'], r),))
                if r == 'accepted' and acc.want_sample():
                    acc.sample(case)
            except Violation as v:
                acc.violation(v)
        acc.exhaustive['odd-token table x positions x versions'] = True
        return acc
    src = args['src']
    g = gen.spelled_grids(None, 2, excl, True, 3, 3, 2, src)
    strat = st.builds(lambda gs, picks, c, multi: {
        'src': src, 'grids': [relabel(m, p) for m, p in zip(gs, picks)], 'choices': c, 'multi': multi},
        st.lists(g, min_size=1, max_size=2), st.lists(st.integers(0, 11), min_size=2, max_size=2), gen.spelling_plans(40),
        st.booleans())

    def body(case):
        for m in case['grids']:
            if m[1] in ('1.0', '2.5', '2.0.1') and has_kind(m, ('bin',)):    # ('2' and '3' equal an official version: Bin is fine)
                acc.label('skipped:bin-under-unofficial-label')
                return
        check(case)
        acc.case(case, nontrivial(case['grids'], src), labels=['src:' + src] + ['ver:' + m[1] for m in case['grids']] + [
            'multi:%s' % case['multi']])
        if acc.want_sample() and len(repr(case)) < 1000:
            acc.sample(case)
    run_hypothesis(acc, body, strat, args['n'], shard_seed(env['seed'], PROPERTY, src, args['shard']))
    return acc


def replay(stage, case):
    if 'raw' in case:
        return check_raw(case)
    case = dict(case)
    for k in ('doc', 'text', 'once', 'twice'):
        case.pop(k, None)
    check(case)
