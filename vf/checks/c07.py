"""C07 - anything parsed can be re-dumped, transcoded and re-parsed unchanged."""
import json

from .. import gen, json_ref, model, zinc_ref
from ..core import Acc, Violation, guarded, run_hypothesis, shard_seed

PROPERTY = 'C07'
RULE = ('documents produced by the independent ZINC and JSON writers of C03/C05 (so the grids hold parser-made values: '
        'fixed-offset tzinfo from zone-less date-times with whole-hour offsets, plain-dict column metadata, ints from raw JSON '
        'numbers, version labels 2.0/3.0, their short spellings 2 and 3, and the non-official 1.0, 2.0.1, 2.5, 3.0.0, 4.0 with data legal under the rules of the nearest official version) are parsed '
        'by hszinc; then (1) dump in both formats must not raise, (2) parsing each dump gives an equal grid (kind-strict '
        'comparator; six-decimal tolerance after a JSON hop; date-times by instant and offset), also along the chains '
        'ZINC->JSON->ZINC and JSON->ZINC->JSON, (3) dumping does not change the grid (model and row identity) and two dumps '
        'are identical, (4) N(x)=dump(parse(x)) is idempotent as text in both formats. Non-trivial = document holds a '
        'parser-made date-time, a non-official version label, a raw JSON number or nested data; distinct by (models, plan).')
ASSUMPTIONS = ['zone-less date-times use whole-hour offsets -12..+14 (a zone with that offset always exists, otherwise '
               'ValueError would be legitimate per C17)',
               'a grid holding 3.0-only data under a pre-3.0 label is not generated (that is C10)',
               'Bin values are not generated under the non-official labels 1.0/2.5 (which Bin spelling a 2.5 document uses is undefined)']
FEATURES = {}
EXHAUSTIVE_CLAIM = False
ALIASES = {'2.0': ['2.0', '2', '1.0', '2.0'], '3.0': ['3.0', '3', '3.0.0', '4.0', '2.5', '2.0.1', '3.0 "rc\\1"']}


def relabel(m, pick):
    """replace the version label of a grid model (and nested grids) by a compatible alias"""
    def rv(v):
        if v[0] == 'grid':
            return relabel(v, pick)
        if v[0] == 'list':
            return ['list', [rv(x) for x in v[1]]]
        if v[0] == 'dict':
            return ['dict', [[k, rv(x)] for k, x in v[1]]]
        return v
    ver = ALIASES[m[1]][pick % len(ALIASES[m[1]])]
    return ['grid', ver, [[k, rv(v)] for k, v in m[2]], [[n, [[k, rv(v)] for k, v in cm]] for n, cm in m[3]],
            [[[c, rv(v)] for c, v in r] for r in m[4]]]


def has_kind(m, kinds):
    return any(k in kinds for _, k in model.kinds(m))


def _mode(fmt):
    import hszinc
    return hszinc.MODE_ZINC if fmt == 'zinc' else hszinc.MODE_JSON


def check(case):
    """case = {'src': 'zinc'|'json', 'grids': [models], 'choices': [...], 'multi': bool}"""
    import hszinc
    src = case['src']
    ms = case['grids']
    multi = case.get('multi', False)
    if src == 'zinc':
        doc, _ = zinc_ref.write_document(ms if multi else ms[:1], case.get('choices', ()))
    else:
        obj, _ = json_ref.write_document(ms, case.get('choices', ()), multi)
        doc = json.dumps(obj)
    shown = dict(case, doc=doc[:1200])
    g0s = guarded('source-parse-raises', shown, hszinc.parse, doc, mode=_mode(src), single=False)
    want = ms if multi else ms[:1]
    if len(g0s) != len(want):
        raise Violation('source-parse', shown, 'source document holds %d grids, parse gave %d' % (len(want), len(g0s)))
    base = [model.to_model(g) for g in g0s]
    rows_before = [[id(r) for r in g] for g in g0s]
    raw_before = [model.raw_snapshot(g) for g in g0s]
    arg = g0s if multi else g0s[0]
    texts = {}
    for fmt in ('zinc', 'json'):
        t1 = guarded('redump-raises', shown, hszinc.dump, arg, mode=_mode(fmt))
        t1b = guarded('redump-raises', shown, hszinc.dump, arg, mode=_mode(fmt))
        if t1 != t1b:
            raise Violation('dump-not-deterministic', shown, 'two %s dumps of one grid differ' % fmt, (fmt,))
        for b, g, rb, raw in zip(base, g0s, rows_before, raw_before):
            d = model.diff(b, model.to_model(g))
            if not d and model.raw_snapshot(g) != raw:
                d = 'row dicts / metadata were touched (keys or value objects changed)'
            if d or [id(r) for r in g] != rb:
                raise Violation('dump-mutated-grid', shown, 'dumping as %s changed the grid: %s' % (fmt, d or 'row objects replaced'), (fmt,))
        texts[fmt] = t1
        g1s = guarded('reparse-raises', dict(shown, text=t1[:600]), hszinc.parse, t1, mode=_mode(fmt), single=False)
        if len(g1s) != len(g0s):
            raise Violation('reparse-count', shown, '%s: dumped %d grids, parsed %d' % (fmt, len(g0s), len(g1s)), (fmt,))
        for i, (b, g1) in enumerate(zip(base, g1s)):
            d = model.diff(b, model.to_model(g1), tol=(fmt == 'json'), dt_by_instant=True, path='grid[%d]' % i)
            if d:
                raise Violation('reparse-diff', dict(shown, text=t1[:600]), '%s->%s: %s' % (src, fmt, d), (src, fmt, d.split(':')[1].split()[0]))
        # chain: back into the source format
        t2 = guarded('chain-dump-raises', shown, hszinc.dump, g1s if multi else g1s[0], mode=_mode(src))
        g2s = guarded('chain-parse-raises', dict(shown, text=t2[:600]), hszinc.parse, t2, mode=_mode(src), single=False)
        for i, (b, g2) in enumerate(zip(base, g2s)):
            d = model.diff(b, model.to_model(g2), tol=True, dt_by_instant=True, path='grid[%d]' % i)
            if d:
                raise Violation('chain-diff', dict(shown, text=t2[:600]), '%s->%s->%s: %s' % (src, fmt, src, d), (src, fmt))
        # idempotence of normalisation in format fmt
        def norm(x):
            gs = hszinc.parse(x, mode=_mode(fmt), single=False)
            return hszinc.dump(gs if multi else gs[0], mode=_mode(fmt))
        # N(x) = dump(parse(x)); x = the source document (same format) or the transcoded text (a document of fmt)
        n1 = t1 if fmt == src else guarded('normalise-raises', shown, norm, t1)
        n2 = guarded('normalise-raises', shown, norm, n1)
        if n2 != n1:
            raise Violation('not-idempotent', dict(shown, once=n1[:500], twice=n2[:500]),
                            'normalising %s text twice differs from once' % fmt, (fmt,))
    return True


def nontrivial(ms, src):
    for m in ms:
        if m[1] not in ('2.0', '3.0') or model.depth(m) > 1:
            return True
        for v in _walk(m):
            if v[0] == 'dt' and v[3] is None:
                return True
            if v[0] == 'num' and len(v) > 2 and v[2] == 'raw':
                return True
    return False


def _walk(m):
    yield m
    if m[0] == 'list':
        for x in m[1]:
            for y in _walk(x):
                yield y
    elif m[0] == 'dict':
        for _, x in m[1]:
            for y in _walk(x):
                yield y
    elif m[0] == 'grid':
        for _, v in m[2]:
            for y in _walk(v):
                yield y
        for _, cm in m[3]:
            for _, v in cm:
                for y in _walk(v):
                    yield y
        for r in m[4]:
            for _, v in r:
                for y in _walk(v):
                    yield y


def plan(tier, seed, excl):
    q = tier == 'quick'
    return [('docs', {'src': s, 'shard': i, 'n': 700 if q else 6000}) for s in ('zinc', 'json') for i in range(8)]


def run(part, args, env):
    from hypothesis import strategies as st
    acc = Acc(part)
    excl = frozenset(env['excl'])
    src = args['src']
    g = gen.spelled_grids(None, 2, excl, True, 3, 3, 2, src)
    strat = st.builds(lambda gs, picks, c, multi: {
        'src': src, 'grids': [relabel(m, p) for m, p in zip(gs, picks)], 'choices': c, 'multi': multi},
        st.lists(g, min_size=1, max_size=2), st.lists(st.integers(0, 11), min_size=2, max_size=2), gen.spelling_plans(40),
        st.booleans())

    def body(case):
        for m in case['grids']:
            if m[1] in ('1.0', '2.5', '2.0.1') and has_kind(m, ('bin',)):    # ('2' and '3' equal an official version: Bin is fine)
                acc.label('skipped:bin-under-unofficial-label')
                return
        check(case)
        acc.case(case, nontrivial(case['grids'], src), labels=['src:' + src] + ['ver:' + m[1] for m in case['grids']] + [
            'multi:%s' % case['multi']])
        if acc.want_sample() and len(repr(case)) < 1000:
            acc.sample(case)
    run_hypothesis(acc, body, strat, args['n'], shard_seed(env['seed'], PROPERTY, src, args['shard']))
    return acc


def replay(stage, case):
    case = dict(case)
    for k in ('doc', 'text', 'once', 'twice'):
        case.pop(k, None)
    check(case)
