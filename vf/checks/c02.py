"""C02 - JSON round trip: parse(dump(g)) is g, for every valid grid."""
from . import c01
from .. import rt

PROPERTY = 'C02'
FMT = 'json'
RULE = c01.RULE.replace('parse_scalar(dump_scalar(v))', 'parse_scalar(dump_scalar(v)) in JSON mode') + (
    ' JSON specifics: input handed back as text, as bytes (utf-8/16/32) or as the pre-decoded dict/list; float payloads '
    '(numbers, quantities, coordinates) compared with abs(a-b) <= 5e-7 + 1e-12*|a|, everything else exactly; Remove must '
    'be spelled "x:" in 2.0 grids and "-:" in 3.0 grids.')
ASSUMPTIONS = c01.ASSUMPTIONS + ['dict values whose key set contains meta, cols and rows are not generated (JSON cannot '
                                 'tell them from a nested grid)']
FEATURES = {}
EXHAUSTIVE_CLAIM = False


def plan(tier, seed, excl):
    q = tier == 'quick'
    t = [('catalogue-scalars', {'ver': v, 'shard': i, 'of': 2}) for v in ('2.0', '3.0') for i in range(2)]
    t += [('catalogue-grids', {'shard': i, 'of': 4}) for i in range(4)]
    t += [('scalars', {'shard': i, 'n': 4000 if q else 60000}) for i in range(8)]
    t += [('sizes', {'shard': i, 'of': 8, 'tier': tier}) for i in range(8)]
    t.append(('after-failed-dump', {}))
    t += [('fixed-offset', {'order': k}) for k in range(3)]
    t += [('independent-results', {'shard': i, 'of': 4, 'n': 300 if q else 4000}) for i in range(4)]
    t += [('grids', {'shard': i, 'n': 2500 if q else 30000}) for i in range(16)]
    return t


def run(part, args, env):
    return c01.run(part, args, env, fmt=FMT)


def replay(stage, case):
    return c01.replay(stage, case, fmt=FMT)
