"""C15 - lookup by id always reflects the rows currently in the grid."""
from . import c14
from .. import gridhist

PROPERTY = 'C15'
MODE = 'id'
RULE = ('the operation histories of C14 (plus rows whose ids are str, int, Ref, Ref with display, duplicated ids, ids with the '
        'same string form, rows without id, grids derived by slicing and by filter()) with, after the history, for ten keys '
        '(str and Ref, present/absent): grid[key] and grid.get(key, default) must return (by identity) a row currently in the '
        'grid whose str(id) equals str(key), or raise KeyError / return the default iff no current row has it; no other '
        'exception. Exhaustive small scope + Hypothesis histories with lookups after every step. Non-trivial = lookups '
        'happen after a delete/replace/derive; distinct by op list.')
ASSUMPTIONS = ['with duplicate ids any current matching row is accepted', 'numeric keys index rows and are not id lookups']
FEATURES = {'grid.index-none': c14.FEATURES['grid.index-none'],
            'grid.index-stale': 'id index keeps deleted/replaced rows (ids of kind int/Ref, slice deletion, reverse)'}
EXHAUSTIVE_CLAIM = True


def plan(tier, seed, excl):
    return c14.plan(tier, seed, excl, MODE)


def run(part, args, env):
    return c14.run(part, args, env, MODE, PROPERTY)


def replay(stage, case):
    return c14.replay(stage, case, MODE)
