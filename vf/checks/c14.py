"""C14 - Grid behaves as a list of row dicts under every sequence of operations."""
from .. import gridhist
from ..core import Acc, Violation, run_hypothesis, shard_seed

PROPERTY = 'C14'
MODE = 'list'
RULE = ('histories of append/insert/extend/+=/item assignment/del (index and slice)/pop/remove/reverse/clear, continue-on-a-'
        'slice, and refused values (non-dict rows, out-of-range indices) applied in lock-step to a Grid and a Python list '
        'holding the same row objects; per step the outcome (result identity or exception type) must match, and after the '
        'history: len, iteration (row identity), g[i] for every i in -n-1..n, seven slices (Grid type, rows, carried '
        'version/metadata/columns), membership, count, index. Exhaustive: all histories up to depth 3 (quick) / 4 (thorough) over a '
        '~40-op alphabet from four initial grids; Hypothesis: histories of up to 50 ops with observation after every step. '
        'Non-trivial = history contains a deletion, a replacement, a refused op or a mutation after a slice; distinct by op list.')
ASSUMPTIONS = ['rows hold scalar values only (version gating of row content is C10)',
               'for extend/+= the rows before a refused element stay appended, as for a list']
FEATURES = {'grid.index-none': 'mutating a grid whose id index was never built (slice-derived, or rows without earlier lookups) '
                               'raises AttributeError/TypeError'}
EXHAUSTIVE_CLAIM = True
INITIALS = [[], [0, 1, 2], [3, 4, 0, 2], [8, 0, 6, 9]]


def plan(tier, seed, excl, mode=MODE):
    q = tier == 'quick'
    t = []
    for ii in range(len(INITIALS)):
        for d in ((1, 2, 3) if q else (1, 2, 3, 4)):
            of = 1 if d < 3 else (4 if d == 3 else 40)
            for sh in range(of):
                t.append(('enum', {'init': ii, 'depth': d, 'shard': sh, 'of': of}))
    if q and mode == 'id':
        # (the id observations are cheap enough for one initial grid to depth 4 in the quick tier as well)
        t += [('enum', {'init': 1, 'depth': 4, 'shard': sh, 'of': 16}) for sh in range(16)]
    t += [('machine', {'shard': i, 'n': 600 if q else 12000}) for i in range(8)]
    return t


def run(part, args, env, mode=MODE, prop=PROPERTY):
    acc = Acc(part)
    if part == 'enum':
        n = nt = 0
        for case in gridhist.enumerate_histories(mode, INITIALS[args['init']], args['depth'], args['shard'], args['of'],
                                                 auto=('plain' if args['init'] == 0 else args['init'] % 2 == 1), v2=(args['init'] == 2)):
            try:
                flags = gridhist.check_history(case, mode)
            except Violation as v:
                acc.violation(v)
                if len(acc.violations) >= acc.MAX_VIOL:
                    break
                continue
            n += 1
            nt += bool(flags & {'delete', 'replace', 'refused', 'mutation-after-derive'})
            if n % 30011 == 1:
                acc.sample(case)
        acc.bulk(n, nt, labels=('enum:depth%d' % args['depth'],))
        acc.exhaustive['all histories to depth %d over the %d-op alphabet x %d initial grids' % (
            args['depth'], len(gridhist.alphabet(mode)), len(INITIALS))] = True
    else:
        def body(case):
            flags = gridhist.check_history(case, mode, every_step=True)
            acc.case(case, bool(flags & {'delete', 'replace', 'refused', 'mutation-after-derive'}),
                     labels=['machine'] + ['flag:' + f for f in sorted(flags)])
            if acc.want_sample() and len(case['ops']) < 10:
                acc.sample(case)
        run_hypothesis(acc, body, gridhist.history_strategy(mode), args['n'], shard_seed(env['seed'], prop, args['shard']))
    return acc


def replay(stage, case, mode=MODE):
    case = dict(case)
    case.pop('step', None)
    gridhist.check_history(case, mode, every_step=True)
