"""C19 - equality of Haystack values and grids is a lawful, kind-aware relation."""
import copy
import math

from .. import gen, model
from ..core import Acc, Violation, guarded, run_hypothesis, shard_seed, describe_exc

PROPERTY = 'C19'
RULE = ('(a) all ordered pairs (and all triples whose first two members are equal) over a catalogue of ~330 values covering '
        'every kind x boundary payloads, with the same text as str/Uri/Bin/XStr payload/Ref name/Ref display, ints vs floats vs '
        'bools vs Quantities, Refs with/without display, grids, lists, dicts; laws: == and != never raise (sole exception: two '
        'Quantities with different units -> TypeError), complementary, symmetric, reflexive (NaN payloads excluded), '
        'str/Uri/Bin pairwise unequal in both orders, same-kind different-content unequal, equal same-kind hashable values '
        'hash equally, singletons survive copy/deepcopy; plus Hypothesis value pairs. (b) grid pairs: a generated grid equals '
        'its rebuilt copy, its deepcopy and its ZINC and JSON round trips, and is unequal (False, no exception, both '
        'orders, != True) to every single-position edit of itself: row dropped/added, column renamed, grid or column '
        'metadata key renamed/added/removed, a cell replaced by a value of another kind, a cell content changed beyond '
        '1e-6. Non-trivial = cross-kind pair or pair of distinct values / one-edit grid pair; distinct by model hash.')
ASSUMPTIONS = ['NaN payloads are excluded from reflexivity and grid-copy equality (Python float semantics)',
               'XStr equality compares decoded payloads only (as documented in the class); not asserted beyond the laws',
               'date-times are equal iff they denote the same instant (Python semantics)',
               'grid version and metadata/column order are not part of "differs materially" (not listed in the property)']
FEATURES = {
    'eq.str-subclass': "plain str vs Uri/Bin with equal text compare equal / != disagrees with ==",
    'grideq.raises': 'Grid.__eq__ raises on cells or metadata of different kinds, or on non-grid operands',
    'grideq.inf': 'a grid containing inf is unequal to its own copy',
    'grideq.cross-kind-equal': 'Grid.__eq__ treats a cell of another kind as equal (bool vs number, number vs Quantity, str vs Uri)',
}
EXHAUSTIVE_CLAIM = True

TEXTS = ['', 'x', 'a b', 'text/plain', u'caf\xe9', '1', 'n:1', 'a', 'T']
TEXTLIKE = ('str', 'uri', 'bin')
STRUCTURAL = ('str', 'uri', 'bin', 'ref', 'date', 'time', 'coord', 'bool')


def catalogue():
    out = []
    for t in TEXTS:
        out += [['str', t], ['uri', t], ['xstr', 'Foo', t], ['ref', 'r', t]]
        if t:
            out.append(['bin', t])
    for n in ['a', 'x', 'a.b', '1', 'T']:
        out += [['ref', n, None], ['ref', n, n], ['ref', n, '']]
    for v in [0, 1, -1, 2, 2 ** 53, 0.0, -0.0, 1.0, 1.5, 1e-7, 1.0000001, 1e22, float('inf'), float('-inf'), float('nan')]:
        out.append(['num', v])
        if isinstance(v, int) or math.isfinite(v):
            out += [['qty', v, 'm'], ['qty', v, 'kW']]
    out += [['qty', 1.0, ''], ['qty', 1.0, None], ['bool', True], ['bool', False], ['marker'], ['na'], ['remove'], ['null']]
    out += [['xstr', 'hex', '00'], ['xstr', 'b64', 'AA=='], ['xstr', 'Bar', 'x'], ['xstr', 'hex', 'deadbeef']]
    out += [['date', 2020, 1, 1], ['date', 2020, 1, 2], ['time', 1, 2, 3, 0], ['time', 1, 2, 3, 1], ['time', 1, 2, 4, 0],
            ['coord', 1.0, 2.0], ['coord', 1.0, 2.5], ['coord', 2.0, 1.0], ['coord', 1.0, 2.0000001], ['coord', 1.0000004, 2.0],
            ['dt', '2020-01-01T00:00:00.000000', 0, 'UTC'], ['dt', '2020-01-01T00:00:00.000000', 0, 'London'],
            ['dt', '2020-01-01T00:00:00.000000', -18000, 'New_York'], ['dt', '2020-01-01T00:00:01.000000', 0, 'UTC'],
            ['dt', '2020-01-01T00:00:00.000000', 3600, None]]
    out += [['list', []], ['list', [['num', 1.0]]], ['list', [['str', 'x']]], ['list', [['uri', 'x']]],
            ['dict', []], ['dict', [['a', ['marker']]]], ['dict', [['a', ['str', 'x']]]], ['dict', [['a', ['uri', 'x']]]],
            ['grid', '3.0', [], [['a', []]], []], ['grid', '3.0', [], [['a', []]], [[['a', ['str', 'x']]]]],
            ['grid', '3.0', [], [['a', []]], [[['a', ['uri', 'x']]]]], ['grid', '2.0', [['m', ['marker']]], [['b', []]], []]]
    seen, res = set(), []
    for m in out:
        k = repr(m)
        if k not in seen:
            seen.add(k)
            res.append(m)
    return res


def has_nan(m):
    if m[0] in ('num', 'qty'):
        return isinstance(m[1], float) and math.isnan(m[1])
    if m[0] == 'coord':
        return math.isnan(m[1]) or math.isnan(m[2])
    if m[0] == 'list':
        return any(has_nan(x) for x in m[1])
    if m[0] == 'dict':
        return any(has_nan(x) for _, x in m[1])
    if m[0] == 'grid':
        return any(has_nan(v) for _, v in m[2]) or any(has_nan(v) for _, cm in m[3] for _, v in cm) or \
            any(has_nan(v) for r in m[4] for _, v in r)
    return False


def _has_qty(m):
    return any(k == 'qty' for _, k in model.kinds(m))


def _eq(a, b):
    return a == b


def _ne(a, b):
    return a != b


def check_pair(ma, mb, excl=frozenset()):
    """ma, mb: models.  All laws on the ordered pair (a, b)."""
    case = {'a': ma, 'b': mb}
    a, b = model.from_model(ma), model.from_model(mb)
    tags = (ma[0], mb[0])
    both_qty_diff_unit = ma[0] == 'qty' and mb[0] == 'qty' and ma[2] != mb[2]
    is_grid = ma[0] == 'grid' or mb[0] == 'grid'
    res = {}
    for name, fn, x, y in (('a==b', _eq, a, b), ('a!=b', _ne, a, b), ('b==a', _eq, b, a), ('b!=a', _ne, b, a)):
        try:
            res[name] = fn(x, y)
        except TypeError as e:
            if both_qty_diff_unit or ('Quantity units differ' in str(e) and _has_qty(ma) and _has_qty(mb)):
                # the documented exception, also when the two quantities sit inside lists/dicts that are compared
                res[name] = 'TypeError'
                continue
            if is_grid and 'grideq.raises' in excl:
                return
            raise Violation('raises', case, '%s raised %s' % (name, describe_exc(e)), tags)
        except Exception as e:  # noqa
            if is_grid and 'grideq.raises' in excl:
                return
            raise Violation('raises', case, '%s raised %s' % (name, describe_exc(e)), tags)
    if both_qty_diff_unit or 'TypeError' in res.values():
        return
    for k, v in res.items():
        if not isinstance(v, bool):
            raise Violation('non-bool', case, '%s returned %r' % (k, v), tags)
    textlike_pair = ma[0] in TEXTLIKE and mb[0] in TEXTLIKE and ma[0] != mb[0]
    if textlike_pair and 'eq.str-subclass' in excl:
        return
    if res['a==b'] == res['a!=b']:
        raise Violation('complementary', case, 'a==b is %r and a!=b is %r' % (res['a==b'], res['a!=b']), tags)
    if res['a==b'] != res['b==a']:
        raise Violation('symmetric', case, 'a==b is %r but b==a is %r' % (res['a==b'], res['b==a']), tags)
    if textlike_pair and res['a==b']:
        raise Violation('kind-aware', case, '%s and %s with the same text compare equal' % (ma[0], mb[0]), tags)
    same_kind = ma[0] == mb[0]
    # "identically built" means identical models; the comparator's six-decimal coordinate tolerance must not
    # make two different coordinates count as copies of each other
    d = None if repr(ma) == repr(mb) else (model.diff(ma, mb) or 'values differ within the comparator tolerance')
    if same_kind and d is None and not has_nan(ma):
        if is_grid and ('grideq.inf' in excl):
            pass
        elif not res['a==b']:
            raise Violation('reflexive', case, 'a value is unequal to an identically built copy', tags)
    if same_kind and d is not None and ma[0] in STRUCTURAL and res['a==b']:
        raise Violation('distinct-equal', case, 'different %s values compare equal (%s)' % (ma[0], d), tags)
    if ma[0] == 'ref' and mb[0] == 'ref' and (ma[2] is None) != (mb[2] is None) and res['a==b']:
        raise Violation('kind-aware', case, 'Ref with and without display name compare equal', tags)
    if ma[0] == 'dt' and mb[0] == 'dt' and (ma[1] != mb[1]) and res['a==b']:
        raise Violation('distinct-equal', case, 'date-times of different instants compare equal', tags)
    if same_kind and res['a==b'] is True:
        try:
            ha, hb = hash(a), hash(b)
        except TypeError:
            ha = hb = None
        if ha != hb:
            raise Violation('hash', case, 'equal values of one kind hash differently', tags)


def check_single(m):
    import hszinc
    case = {'a': m}
    a = model.from_model(m)
    for nm, fn in (('copy', copy.copy), ('deepcopy', copy.deepcopy)):
        c = guarded('copy-raises', case, fn, a)
        if m[0] in ('marker', 'na', 'remove'):
            if c is not a:
                raise Violation('singleton', case, '%s of a singleton is a different object' % nm)
        elif not has_nan(m) and m[0] != 'null':
            try:
                ok = (c == a) is True and (a != c) is False
            except Exception as e:  # noqa
                raise Violation('raises', case, '%s compare raised %s' % (nm, describe_exc(e)))
            if not ok:
                raise Violation('reflexive', case, 'value unequal to its %s' % nm)
    if m[0] in ('marker', 'na', 'remove'):
        s = {'marker': hszinc.MARKER, 'na': hszinc.NA, 'remove': hszinc.REMOVE}[m[0]]
        if a is not s:
            raise Violation('singleton', case, 'not the module singleton')


def check_triple(ma, mb, mc):
    case = {'a': ma, 'b': mb, 'c': mc}
    a, b, c = model.from_model(ma), model.from_model(mb), model.from_model(mc)
    try:
        if a == b and b == c and not (a == c):
            raise Violation('transitive', case, 'a==b and b==c but not a==c')
    except TypeError:
        pass


# ---------------------------------------------------------------- grids

def other_kind(v):
    """a value of a different Haystack kind, chosen to be 'close' where a close one exists"""
    k = v[0]
    if k == 'str':
        return ['uri', v[1]]
    if k == 'uri':
        return ['str', v[1]]
    if k == 'bin':
        return ['str', v[1]]
    if k == 'num':
        if v[1] in (0, 1) and not isinstance(v[1], bool):
            return ['bool', bool(v[1])]
        if isinstance(v[1], float) and not math.isfinite(v[1]):
            return ['str', 'INF']
        return ['qty', v[1], 'm']
    if k == 'qty':
        return ['num', v[1]]
    if k == 'bool':
        return ['num', 1.0 if v[1] else 0.0]
    if k == 'marker':
        return ['remove']
    if k == 'date':
        return ['str', '%04d-%02d-%02d' % tuple(v[1:4])]
    if k == 'ref':
        return ['str', '@' + v[1]]
    if k == 'dt':
        return ['naive-datetime', v[1]]      # same wall-clock digits (UTC), no zone: not the same value
    return ['marker']


ZONE_POOL = ['UTC', 'London', 'Lisbon', 'Paris', 'Berlin', 'New_York', 'Toronto', 'Chicago', 'Winnipeg', 'Tokyo', 'Seoul',
             'Kolkata', 'Colombo', 'Sydney', 'Melbourne', 'Los_Angeles', 'Vancouver', 'Denver', 'Edmonton', 'Dubai', 'Muscat']


def other_zones(v):
    """(label, zone name) - a mapped zone with another UTC offset at the instant of v, and one with the same offset"""
    import pytz
    from hszinc import zoneinfo
    tzmap = zoneinfo.get_tz_map()
    utc = pytz.utc.localize(model.dt_parse(v[1]))
    if v[3] not in tzmap:
        return
    own = utc.astimezone(pytz.timezone(tzmap[v[3]])).utcoffset()
    seen = set()
    for z in ZONE_POOL:
        if z == v[3] or z not in tzmap:
            continue
        how = 'same-offset' if utc.astimezone(pytz.timezone(tzmap[z])).utcoffset() == own else 'other-offset'
        if how not in seen:
            seen.add(how)
            yield how, z


def changed(v):
    """same kind, content differing beyond the tolerance; None if not applicable"""
    k = v[0]
    if k in ('str', 'uri', 'bin'):
        return [k, v[1] + 'x']
    if k == 'num':
        if isinstance(v[1], float) and not math.isfinite(v[1]):
            return ['num', 0.0]
        if isinstance(v[1], int) and abs(v[1]) > 2 ** 52:
            return ['num', v[1] + abs(v[1]) // 2]
        return ['num', v[1] + max(1.0, abs(v[1]) * 0.5)]
    if k == 'qty':
        if isinstance(v[1], int) and abs(v[1]) > 2 ** 52:
            return ['qty', v[1] + abs(v[1]) // 2, v[2]]
        return ['qty', v[1] + max(1.0, abs(v[1]) * 0.5), v[2]]
    if k == 'bool':
        return ['bool', not v[1]]
    if k == 'ref':
        return ['ref', v[1] + 'x', v[2]]
    if k == 'date':
        return ['date', v[1], v[2], 1 if v[3] != 1 else 2]
    if k == 'time':
        return ['time', v[1], (v[2] + 1) % 60, v[3], v[4]]
    if k == 'dt':
        import datetime
        t = model.dt_parse(v[1])
        t = t + datetime.timedelta(days=1) if t.year < 9000 else t - datetime.timedelta(days=1)
        return ['dt', model.dt_text(t), v[2], v[3]]
    if k == 'coord':
        return ['coord', v[1], v[2] + 1.0 if v[2] < 100 else v[2] - 1.0]
    if k == 'list':
        return ['list', v[1] + [['marker']]]
    if k == 'dict':
        if v[1]:
            return ['dict', [[v[1][0][0] + 'x', v[1][0][1]]] + v[1][1:]]     # one tag renamed
        return ['dict', [['added', ['marker']]]]
    if k == 'xstr' and v[1] not in ('hex', 'b64'):
        return ['xstr', v[1], v[2] + 'x']
    return None


def edits(m):
    """yield (label, edited grid model) for every single-position edit of grid model m"""
    _, ver, meta, cols, rows = m
    if rows:
        yield 'row-dropped', ['grid', ver, meta, cols, rows[:-1]]
    yield 'row-added', ['grid', ver, meta, cols, rows + [[[cols[0][0], ['marker']]]]]
    names = [c[0] for c in cols]
    new = 'zz' + names[0]
    if new not in names:
        ncols = [[new if i == 0 else c[0], c[1]] for i, c in enumerate(cols)]
        nrows = [[[new if c == names[0] else c, v] for c, v in r] for r in rows]
        yield 'column-renamed', ['grid', ver, meta, ncols, nrows]
    mk = [k for k, _ in meta]
    if 'zzNew' not in mk:
        yield 'meta-added', ['grid', ver, meta + [['zzNew', ['marker']]], cols, rows]
    if meta:
        yield 'meta-removed', ['grid', ver, meta[1:], cols, rows]
        if 'zzRen' not in mk:
            yield 'meta-renamed', ['grid', ver, [['zzRen', meta[0][1]]] + meta[1:], cols, rows]
        ok = other_kind(meta[0][1])
        if ver == '3.0' or ok[0] not in model.V3_ONLY:
            yield 'meta-other-kind', ['grid', ver, [[meta[0][0], ok]] + meta[1:], cols, rows]
    for ci, (cn, cm) in enumerate(cols):
        if cm:
            if 'zzRen' not in [k for k, _ in cm]:
                ncols = cols[:ci] + [[cn, [['zzRen', cm[0][1]]] + cm[1:]]] + cols[ci + 1:]
                yield 'colmeta-renamed', ['grid', ver, meta, ncols, rows]
            ncols = cols[:ci] + [[cn, cm[1:]]] + cols[ci + 1:]
            yield 'colmeta-removed', ['grid', ver, meta, ncols, rows]
            break
    for ri, r in enumerate(rows):
        # one cell per row, the ri-th non-null one (so later rows and later columns are edited too, not only the first cell
        # of the grid: an implementation may treat the first value of a column differently from the ones below it)
        nonnull = [xi for xi, (c, v) in enumerate(r) if v[0] != 'null']
        for xi, (c, v) in enumerate(r):
            if not nonnull or xi != nonnull[ri % len(nonnull)]:
                continue
            ok = other_kind(v)
            if ver == '3.0' or ok[0] not in model.V3_ONLY:
                nr = r[:xi] + [[c, ok]] + r[xi + 1:]
                yield 'cell-other-kind:%s->%s' % (v[0], ok[0]), ['grid', ver, meta, cols, rows[:ri] + [nr] + rows[ri + 1:]]
            ch = changed(v)
            if ch is not None:
                nr = r[:xi] + [[c, ch]] + r[xi + 1:]
                yield 'cell-content:%s' % v[0], ['grid', ver, meta, cols, rows[:ri] + [nr] + rows[ri + 1:]]
            if v[0] in ('num', 'qty') and isinstance(v[1], float) and math.isfinite(v[1]) or v[0] in ('num', 'qty') and isinstance(v[1], int) and abs(v[1]) < 2 ** 52:
                # the smallest changes that are beyond the 1e-6 tolerance
                for delta in (1e-5, -1e-5, 1.0):
                    nv = v[1] + delta
                    if abs(nv - v[1]) > 2e-6:
                        ch2 = [v[0], nv] + v[2:]
                        nr = r[:xi] + [[c, ch2]] + r[xi + 1:]
                        yield 'cell-content-small:%s' % v[0], ['grid', ver, meta, cols, rows[:ri] + [nr] + rows[ri + 1:]]
            if v[0] in ('num', 'qty') and isinstance(v[1], int) and not isinstance(v[1], bool):
                # whole numbers one apart differ by far more than the tolerance, however large they are
                for delta in (1, -1):
                    ch2 = [v[0], v[1] + delta] + v[2:]
                    nr = r[:xi] + [[c, ch2]] + r[xi + 1:]
                    yield 'cell-content-int:%s' % v[0], ['grid', ver, meta, cols, rows[:ri] + [nr] + rows[ri + 1:]]
            if v[0] == 'dt' and v[3] is not None:
                # the same instant in another zone is another date-time (the zone is part of the value and comes back
                # from every round trip): once a zone with another offset, once one that shares the offset just then
                for how, z in other_zones(v):
                    nr = r[:xi] + [[c, ['dt', v[1], v[2], z]]] + r[xi + 1:]
                    yield 'cell-content-zone:%s' % how, ['grid', ver, meta, cols, rows[:ri] + [nr] + rows[ri + 1:]]
            nr = r[:xi] + r[xi + 1:]
            yield 'cell-removed', ['grid', ver, meta, cols, rows[:ri] + [nr] + rows[ri + 1:]]


def check_grid(case, excl=frozenset(), acc=None):
    """case = {'grid': model}"""
    import hszinc
    m = case['grid']
    g1 = model.grid_from_model(m)
    g2 = model.grid_from_model(m)

    def eq(x, y, what):
        try:
            r1, r2 = (x == y), (x != y)
        except Exception as e:  # noqa
            if 'grideq.raises' in excl:
                return None
            raise Violation('grid-raises', dict(case, what=what), '%s: comparison raised %s' % (what, describe_exc(e)), (what.split(':')[0],))
        if not isinstance(r1, bool) or r1 == r2:
            raise Violation('grid-complementary', dict(case, what=what), '%s: == gave %r, != gave %r' % (what, r1, r2))
        return r1
    nan = has_nan(m)
    inf_excl = 'grideq.inf' in excl and any(
        isinstance(x, float) and math.isinf(x) for x in _floats(m))
    if not nan and not inf_excl:
        for what, other in (('copy', g2), ('deepcopy', copy.deepcopy(g1)), ('itself', g1)):
            if eq(g1, other, what) is False or eq(other, g1, what) is False:
                raise Violation('grid-copy-unequal', dict(case, what=what), 'grid is unequal to its %s' % what, (what,))
        for fmt, mode in (('zinc', hszinc.MODE_ZINC), ('json', hszinc.MODE_JSON)) if not case.get('no_roundtrip') else ():
            back = guarded('roundtrip-raises', case, lambda: hszinc.parse(hszinc.dump(g1, mode=mode), mode=mode))
            if eq(g1, back, 'roundtrip-' + fmt) is False or eq(back, g1, 'roundtrip-' + fmt) is False:
                raise Violation('grid-roundtrip-unequal', dict(case, what=fmt), 'grid is unequal to its %s round trip' % fmt, (fmt,))
    n = 0
    for label, em in edits(m):
        if 'grideq.cross-kind-equal' in excl and ('other-kind' in label):
            continue
        n += 1
        if acc is not None:
            acc.label('edit:' + label.split(':')[0])
        ge = model.grid_from_model(em)
        for x, y, o in ((g1, ge, 'a,b'), (ge, g1, 'b,a')):
            r = eq(x, y, 'edit:%s:%s' % (label, o))
            if r is True:
                raise Violation('grid-edit-equal', dict(case, what=label, edited=em),
                                'grid equals a grid that differs materially (%s, order %s)' % (label, o), (label.split(':')[0],))
    return n


BIG_INTS = [2 ** 53, 2 ** 53 + 1, -(2 ** 53) - 1, 10 ** 18, 10 ** 18 + 1, 2 ** 63, 2 ** 64 + 1, 10 ** 30 + 1, 10 ** 308, 10 ** 309, 10 ** 400, -(10 ** 400)]


def check_grid_pair_unequal(case):
    """case = {'pair': [grid model, grid model]} - two grids that differ materially"""
    ga, gb = model.grid_from_model(case['pair'][0]), model.grid_from_model(case['pair'][1])
    for x, y, o in ((ga, gb, 'a,b'), (gb, ga, 'b,a')):
        try:
            r1, r2 = (x == y), (x != y)
        except Exception as e:  # noqa
            raise Violation('grid-raises', case, 'comparison (%s) raised %s' % (o, describe_exc(e)))
        if r1 is not False or r2 is not True:
            raise Violation('grid-edit-equal', case, 'grids that differ materially (whole numbers one apart): == gave %r, != gave %r (order %s)' % (r1, r2, o))


def check_after_refusal(case):
    """case = {'grid': model, 'refused': k}.  A grid on which a store was refused (a 3.0-only value under a 2.0 label, a row
    that is no dict, a position argument that names no key) is still a grid: it equals itself, its deep copy and - when the
    refused store left it as it was - a freshly built twin; the comparison never raises."""
    import hszinc
    m, k = case['grid'], case['refused']
    g = model.grid_from_model(m)
    col = m[3][0][0]
    bad = hszinc.NA if m[1] == '2.0' else object()
    refused = False
    try:
        if k == 0:
            g.metadata['zzNew'] = bad
        elif k == 1:
            g.column[col]['zzNew'] = bad
        elif k == 2:
            g.append({col: bad} if m[1] == '2.0' else 42)
        elif k == 3:
            g.metadata.add_item('zzNew', bad if m[1] == '2.0' else 1, pos_key='zzNoSuchKey')
        else:
            g.column[col].add_item('zzNew', bad if m[1] == '2.0' else 1, index=0, pos_key='zzNoSuchKey')
    except Exception:  # noqa - which stores are refused, and how, is C10 / C14 / C16's subject
        refused = True

    def eq(x, y, what):
        try:
            r1, r2 = (x == y), (x != y)
        except Exception as e:  # noqa
            raise Violation('grid-raises', dict(case, what=what), 'after a %s store: %s comparison raised %s' % (
                'refused' if refused else 'accepted', what, describe_exc(e)), ('after-refusal',))
        if r1 is not True or r2 is not False:
            raise Violation('grid-copy-unequal', dict(case, what=what), 'after a refused store the grid is unequal to %s (== %r, != %r)' % (what, r1, r2),
                            ('after-refusal',))
    if not refused:
        return      # the store was accepted (an object of no Haystack kind now sits in the grid): outside the property
    eq(g, g, 'itself')
    dc = copy.deepcopy(g)
    eq(g, dc, 'its deepcopy')
    eq(dc, g, 'its deepcopy (reflected)')
    twin = model.grid_from_model(m)
    eq(g, twin, 'a freshly built twin')
    eq(twin, g, 'a freshly built twin (reflected)')


def _floats(m):
    if m[0] in ('num', 'qty'):
        yield m[1]
    elif m[0] == 'coord':
        yield m[1]
        yield m[2]
    elif m[0] == 'list':
        for x in m[1]:
            for f in _floats(x):
                yield f
    elif m[0] == 'dict':
        for _, x in m[1]:
            for f in _floats(x):
                yield f
    elif m[0] == 'grid':
        for _, v in m[2]:
            for f in _floats(v):
                yield f
        for _, cm in m[3]:
            for _, v in cm:
                for f in _floats(v):
                    yield f
        for r in m[4]:
            for _, v in r:
                for f in _floats(v):
                    yield f


def plan(tier, seed, excl):
    q = tier == 'quick'
    t = [('pairs', {'shard': i, 'of': 8}) for i in range(8)]
    t += [('triples', {'shard': i, 'of': 4}) for i in range(4)]
    t += [('random-pairs', {'shard': i, 'n': 6000 if q else 60000}) for i in range(6)]
    t += [('catalogue-grids', {'shard': i, 'of': 4}) for i in range(4)]
    t.append(('big-int-grids', {}))
    t.append(('grids-after-refusal', {}))
    t += [('grids', {'shard': i, 'n': 400 if q else 4000}) for i in range(16)]
    return t


def run(part, args, env):
    from hypothesis import strategies as st
    acc = Acc(part)
    excl = env['excl']
    if part == 'pairs':
        C = catalogue()
        n = nt = 0
        for i, a in enumerate(C):
            if i % args['of'] != args['shard']:
                continue
            try:
                check_single(a)
            except Violation as v:
                acc.violation(v)
            for b in C:
                n += 1
                nt += (a != b)
                try:
                    check_pair(a, b, excl)
                except Violation as v:
                    acc.violation(v)
        acc.bulk(n, nt, labels=('pair',))
        acc.exhaustive['ordered pairs over the %d-value catalogue' % len(C)] = len(C) ** 2
        acc.sample({'a': C[args['shard']], 'b': C[args['shard'] + 1]})
    elif part == 'triples':
        C = catalogue()
        objs = [model.from_model(m) for m in C]
        n = 0
        for i, a in enumerate(C):
            if i % args['of'] != args['shard']:
                continue
            for j, b in enumerate(C):
                try:
                    if not (objs[i] == objs[j]):
                        continue
                except Exception:  # noqa - reported by the pairs part
                    continue
                for c in C:
                    n += 1
                    try:
                        check_triple(a, b, c)
                    except Violation as v:
                        acc.violation(v)
                    except Exception:  # noqa - reported by the pairs part
                        pass
        acc.bulk(n, n, labels=('triple',))
        acc.exhaustive['triples (a,b,c) with a==b over the catalogue'] = True
    elif part == 'random-pairs':
        val = gen.values('3.0', depth=1, excl=excl)
        same_text = st.tuples(gen.text(), st.sampled_from(['str', 'uri', 'bin']), st.sampled_from(['str', 'uri', 'bin'])).map(
            lambda t: ([t[1], t[0] or 'x'], [t[2], t[0] or 'x']))
        pairs = st.one_of(st.tuples(val, val), val.map(lambda v: (v, v)), same_text)

        def body(p):
            a, b = p
            acc.case(p, a != b, labels=('random:%s,%s' % (a[0], b[0]),) if a[0] <= b[0] else ())
            if acc.want_sample():
                acc.sample({'a': a, 'b': b})
            check_pair(a, b, excl)
            check_single(a)
        run_hypothesis(acc, body, pairs, args['n'], shard_seed(env['seed'], PROPERTY, 'rp', args['shard']))
    elif part == 'catalogue-grids':
        for i, m in enumerate(gen.catalogue_grids(excl)):
            if i % args['of'] != args['shard']:
                continue
            case = {'grid': m}
            try:
                n = check_grid(case, excl, acc)
                acc.case(case, True)
                acc.evals += n
            except Violation as v:
                acc.violation(v)
        acc.exhaustive['every kind sample x every position: copy/round-trip equality and all single edits'] = True
    elif part == 'grids-after-refusal':
        n = 0
        for i, m in enumerate(gen.catalogue_grids(excl)):
            if has_nan(m):
                continue
            for k in range(5):
                case = {'refused': k, 'grid': m}
                try:
                    check_after_refusal(case)
                    n += 1
                except Violation as v_:
                    acc.violation(v_)
        acc.bulk(n, n, labels=('after-refusal',))
        acc.sample({'refused': 0, 'grids': n})
    elif part == 'big-int-grids':
        # whole numbers beyond 2**53 (where floats stop telling neighbours apart) and beyond the float range, as cell, in a
        # list, in a dict, as a quantity, in grid and column metadata; copies must be equal, a neighbour one apart must not
        for big in BIG_INTS:
            for shape in range(6):
                v = ['num', big]
                cell = [v, ['qty', big, 'kW'], ['list', [['str', 'x'], v]], ['dict', [['k', v]]], v, v][shape]
                meta = [['m', v]] if shape == 4 else []
                cm = [['cm', ['qty', big, 'm']]] if shape == 5 else []
                case = {'grid': ['grid', '3.0', meta, [['a', cm], ['b', []]], [[['a', cell], ['b', ['marker']]]]], 'no_roundtrip': True}
                try:
                    n = check_grid(case, excl, acc)
                    acc.case(case, True, labels=('big-int',))
                    acc.evals += n
                except Violation as v_:
                    acc.violation(v_)
                if shape >= 2:
                    # the neighbour inside the container / the metadata
                    nb = ['num', big + 1]
                    cell2 = [None, None, ['list', [['str', 'x'], nb]], ['dict', [['k', nb]]], v, v][shape]
                    m2 = ['grid', '3.0', [['m', nb]] if shape == 4 else [], [['a', [['cm', ['qty', big + 1, 'm']]] if shape == 5 else []], ['b', []]],
                          [[['a', cell2], ['b', ['marker']]]]]
                    g1, g2 = model.grid_from_model(case['grid']), model.grid_from_model(m2)
                    c2 = {'pair': [case['grid'], m2]}
                    try:
                        check_grid_pair_unequal(c2)
                        acc.case(c2, True, labels=('big-int-neighbour',))
                    except Violation as v_:
                        acc.violation(v_)
        acc.exhaustive['big whole numbers x 6 positions: copies equal, neighbours one apart unequal'] = True
    elif part == 'grids':
        strat = gen.grids(None, 1, excl).map(lambda m: {'grid': m})

        def body(case):
            n = check_grid(case, excl, acc)
            acc.case(case, True)
            acc.evals += n
            if acc.want_sample() and len(repr(case)) < 1200:
                acc.sample(case)
        run_hypothesis(acc, body, strat, args['n'], shard_seed(env['seed'], PROPERTY, 'g', args['shard']))
    return acc


def replay(stage, case):
    if 'refused' in case:
        return check_after_refusal(case)
    if 'pair' in case:
        return check_grid_pair_unequal(case)
    if 'grid' in case:
        check_grid(case)
    elif 'c' in case:
        check_triple(case['a'], case['b'], case['c'])
    elif 'b' in case:
        check_pair(case['a'], case['b'])
    else:
        check_single(case['a'])
