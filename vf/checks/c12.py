"""C12 - filter literals are data, never code: evaluating a filter has no side effects."""
import builtins
import os
import re
import sys

from .. import model
from ..core import Acc, Violation, run_hypothesis, shard_seed, describe_exc, VERIF_DIR, clear_lru_caches

PROPERTY = 'C12'
RULE = ('filters are built by placing payloads - calls/attribute reads/comprehensions/lambdas on canary objects planted in '
        'builtins, hszinc.grid_filter and hszinc.datatypes, __import__/open/exec/eval/compile/getattr/globals expressions, '
        'dunder names, names of builtins, quote/backquote/backslash/newline/#/;/) break-out fragments, format directives - '
        'into every literal and identifier slot of the filter grammar (string, URI, Ref name, Ref display, XStr type name, '
        'XStr payload, unit, zone name (incl. names only pytz knows), tag name, path element before/after ->, list element, dict tag, dict value, Bin payload), '
        'escaped for the slot and raw, inside six enclosing shapes; each is evaluated with grid.filter on a 3-row grid. '
        'Oracle: no canary is called or looked up; no exec/compile audit event carries code whose names include a payload '
        'identifier (identifiers seen with benign filters in a warm-up are allowed); no import/open/os.system/subprocess/'
        'socket audit event mentions a canary token; no NameError/AttributeError/SyntaxError/TypeError etc. escapes - only '
        'success, a pyparsing parse error or ValueError; the globals of hszinc.grid_filter (minus generated functions), '
        'builtins, sys.modules (minus warm-up allow-list), os.environ, cwd and the grid are unchanged. Non-trivial = the '
        'filter compiled (payload sits in a slot the grammar accepts); distinct by filter text.')
ASSUMPTIONS = ['absence of effects can only be searched for, not established: evidence lists what was tried',
               'payloads that would kill or block the process if executed (exit, input, breakpoint) are not used',
               'effects are observed through canary objects, sys.addaudithook events and state snapshots']
FEATURES = {'filter.literal-exec': 'the repr() of filter literals is compiled into the generated function (XStr type("payload") '
                                   'becomes a call) - arbitrary code execution'}
EXHAUSTIVE_CLAIM = True

NCANARY = 6
HITS = []
EVENTS = []
STATE = {'active': False, 'installed': False, 'allowed_names': None, 'allowed_modules': None, 'allowed_tops': set()}
CANARY_DIR = os.path.join(VERIF_DIR, '.work', 'canary')
import tempfile
TMPDIR = tempfile.gettempdir()
KNOWN_PREFIXES = tuple(sorted(set(os.path.realpath(p) for p in (sys.prefix, sys.base_prefix, sys.exec_prefix, '/venv', '/repo',
                                                                 VERIF_DIR, os.environ.get('VERIF_REPO', '/repo')))))
WRITE_FLAGS = os.O_WRONLY | os.O_RDWR | os.O_CREAT | os.O_APPEND | os.O_TRUNC


class Canary(object):
    def __init__(self, n):
        object.__setattr__(self, '_n', n)

    def _hit(self, what):
        HITS.append('zzcanary%d.%s' % (object.__getattribute__(self, '_n'), what))

    def __call__(self, *a, **k):
        self._hit('call')
        return self

    def __getattr__(self, name):
        self._hit('getattr:' + name)
        return self

    def __bool__(self):
        self._hit('bool')
        return False

    def __eq__(self, other):
        self._hit('eq')
        return False

    def __ne__(self, other):
        self._hit('ne')
        return True

    def __hash__(self):
        return 0

    def __lt__(self, other):
        self._hit('lt')
        return False

    def __iter__(self):
        self._hit('iter')
        return iter(())

    def __repr__(self):
        return 'CANARY'


def _code_names(code, acc=None):
    acc = set() if acc is None else acc
    acc.update(code.co_names)
    acc.update(code.co_varnames)
    acc.update(code.co_freevars)
    acc.update(code.co_cellvars)
    for c in code.co_consts:
        if hasattr(c, 'co_names'):
            _code_names(c, acc)
    return acc


def _audit(event, args):
    if not STATE['active']:
        return
    try:
        if event == 'exec':
            code = args[0]
            EVENTS.append(('exec', frozenset(_code_names(code)), getattr(code, 'co_filename', '')))
        elif event == 'compile':
            src = args[0]
            if isinstance(src, bytes):
                src = src.decode('utf-8', 'replace')
            EVENTS.append(('compile', src if isinstance(src, str) else None, args[1] if len(args) > 1 else None))
        elif event == 'import':
            EVENTS.append(('import', str(args[0])))
        elif event == 'open':
            mode = args[1] if len(args) > 1 else None
            flags = args[2] if len(args) > 2 else 0
            writing = (isinstance(mode, str) and any(c in mode for c in 'wax+')) or (isinstance(flags, int) and flags & WRITE_FLAGS)
            EVENTS.append(('open', str(args[0]), bool(writing)))
        elif event in ('os.system', 'subprocess.Popen', 'os.exec', 'os.posix_spawn', 'os.fork', 'os.spawn', 'pty.spawn') \
                or event.startswith('socket.') or event.startswith('os.exec') or event.startswith('ctypes.'):
            EVENTS.append(('danger', event, repr(args)[:200]))
    except Exception:  # noqa - the hook must never raise
        pass


def install():
    import hszinc.grid_filter
    import hszinc.datatypes
    if STATE['installed']:
        return
    for n in range(NCANARY):
        c = Canary(n)
        setattr(builtins, 'zzcanary%d' % n, c)
        setattr(hszinc.grid_filter, 'zzcanary%d' % n, c)
        setattr(hszinc.datatypes, 'zzcanary%d' % n, c)
    sys.addaudithook(_audit)
    os.makedirs(CANARY_DIR, exist_ok=True)
    STATE['installed'] = True
    # warm-up: learn which names / modules legitimately show up
    names, mods = set(), set()
    g = probe_grid()
    for f in ['x', 'not x', 'x == 1', 'x < 5kW', 'x == "s"', 'x == `u`', 'x == @r', 'r->x', 'x == 2020-01-01', 'x == 12:00:00',
              'x == 2020-01-01T00:00:00Z UTC', 'x == 2020-01-01T00:00:00-05:00 New_York', 'x == Foo("p")', 'x == [1, "a"]',
              'x == {a:1 b}', 'x == C(1,2)', 'x == Bin(text/plain)', 'x and y or not z', '(x or y) and z != true', 'x == N',
              'x == M', 'x >= 1 and x <= 2 and y', 'x == 1e5', 'x == -INF']:
        HITS[:] = []
        EVENTS[:] = []
        before = set(sys.modules)
        STATE['active'] = True
        try:
            try:
                g.filter(f)
            except Exception:  # noqa
                pass
        finally:
            STATE['active'] = False
        for ev in EVENTS:
            if ev[0] == 'exec':
                names |= ev[1]
            elif ev[0] == 'open' and (ev[2] or not ev[1].startswith(KNOWN_PREFIXES)) and STATE.get('warmup_violation') is None:
                # first-use effects are not excused by happening during the warm-up
                STATE['warmup_violation'] = ('file-opened', f, 'open(%r%s) while evaluating the benign filter %r' % (
                    ev[1], ' for writing' if ev[2] else '', f))
            elif ev[0] == 'danger' and STATE.get('warmup_violation') is None:
                STATE['warmup_violation'] = ('process-or-network', f, '%s %s while evaluating the benign filter %r' % (ev[1], ev[2], f))
        mods |= set(sys.modules) - before
    STATE['allowed_names'] = names
    STATE['allowed_modules'] = mods
    # lazily imported sub-modules of the standard library or of packages that are loaded anyway are not "code from the
    # filter text"; anything from another top-level package is
    STATE['allowed_tops'] = set(getattr(sys, 'stdlib_module_names', ())) | set(m.split('.')[0] for m in sys.modules)


def probe_grid():
    import hszinc
    import datetime
    g = hszinc.Grid(version='3.0')
    for c in ('id', 'x', 'y', 'z', 'r'):
        g.column[c] = {}
    g.append({'id': 'id0', 'x': 1.0, 'y': 'text', 'z': hszinc.MARKER, 'r': hszinc.Ref('id1')})
    g.append({'id': 'id1', 'x': hszinc.XStr('Foo', 'p'), 'y': hszinc.Uri('u'), 'r': hszinc.Ref('id0')})
    g.append({'id': 'id2', 'x': datetime.date(2020, 1, 1), 'y': hszinc.Quantity(5.0, 'kW'), 'z': [1.0, 'a']})
    g.append({'id': 'id3', 'x': hszinc.Bin('text/plain'), 'y': hszinc.Coordinate(1.0, 2.0), 'z': {'a': 1.0}})
    return g


IDENT = re.compile(r'[A-Za-z_][A-Za-z0-9_]*')


def _generated(name, value):
    """the library's own compiled-filter entries in its module namespace: functions compiled from a string (no source
    file), under a name that is not a canary.  (What such a function may refer to is checked on the exec/compile events.)"""
    code = getattr(value, '__code__', None)
    return code is not None and code.co_filename.startswith('<') and 'zzcanary' not in name


def snapshot():
    import hszinc.grid_filter as gf
    return {
        'gf': frozenset(k for k, v in list(vars(gf).items()) if not _generated(k, v)),
        'builtins': frozenset(vars(builtins)),
        'modules': frozenset(sys.modules),
        'environ': dict(os.environ),
        'cwd': os.getcwd(),
        'recursionlimit': sys.getrecursionlimit(),
        'switchinterval': sys.getswitchinterval(),
        'pint-mode': getattr(sys.modules.get('hszinc.datatypes'), 'MODE_PINT', None),
        'canary_files': tuple(sorted(os.listdir(CANARY_DIR))),
        'public-state': _public_state(),
    }


def _freeze(v, depth=0):
    if isinstance(v, (str, bytes, int, float, bool, type(None))):
        return (type(v).__name__, v if v == v else 'nan')
    if depth < 3 and isinstance(v, dict):
        return ('dict', frozenset((_freeze(k, depth + 1), _freeze(x, depth + 1)) for k, x in list(v.items())))
    if depth < 3 and isinstance(v, (list, tuple)):
        return (type(v).__name__, tuple(_freeze(x, depth + 1) for x in v))
    if depth < 3 and isinstance(v, (set, frozenset)):
        return ('set', frozenset(_freeze(x, depth + 1) for x in v))
    return ('object', type(v).__name__, id(v))


def _public_state():
    """what a program can see of the package's module-level state through public names: every public (non-underscore)
    module-level data object of every hszinc module (content of dicts / lists / sets / scalars, identity otherwise) and the
    time-zone tables handed out by zoneinfo's public accessors.  Private memo tables are not state visible to the program."""
    import types
    out = {}
    for name, mod in sorted(sys.modules.items()):
        if not (name == 'hszinc' or name.startswith('hszinc.')) or mod is None:
            continue
        for k, v in sorted(vars(mod).items()):
            if k.startswith('_') or isinstance(v, (types.ModuleType, types.FunctionType, types.BuiltinFunctionType, type)) or callable(v):
                continue
            out[name + '.' + k] = _freeze(v)
    zi = sys.modules.get('hszinc.zoneinfo')
    for fn in ('get_tz_map', 'get_tz_rmap'):
        f = getattr(zi, fn, None)
        if callable(f):
            try:
                out['zoneinfo.%s()' % fn] = _freeze(f())
            except Exception as e:  # noqa
                out['zoneinfo.%s()' % fn] = ('raises', type(e).__name__)
    return out


def check(case):
    """case = {'filter': text, 'payload': text}.  Returns 'compiled' | 'rejected'."""
    import pyparsing
    install()
    if STATE.get('warmup_violation'):
        st, f, detail = STATE['warmup_violation']
        raise Violation(st, {'filter': f, 'payload': '', 'slot': 'warm-up'}, detail, ('warm-up',))
    text = case['filter']
    payload = case.get('payload', '')
    idents = set(IDENT.findall(payload)) - STATE['allowed_names'] - {'x', 'y', 'z', 'r', 'a', 'b', 'v', 'true', 'false', 'not', 'and', 'or'}
    g = probe_grid()
    gm = model.grid_to_model(g)
    raw = model.raw_snapshot(g)
    # every evaluation compiles: drop the compiled-filter cache (state must not leak between cases)
    import hszinc.grid_filter as gf
    clear_lru_caches(gf)
    snap = snapshot()
    HITS[:] = []
    EVENTS[:] = []
    outcome = 'compiled'
    exc = None
    STATE['active'] = True
    try:
        try:
            g.filter(text)
        except (pyparsing.ParseBaseException, ValueError):
            outcome = 'rejected'
        except RecursionError as e:
            # nesting deeper than the interpreter's recursion limit is outside the domain; what still must hold is that
            # nothing - in particular no interpreter-wide setting - is changed by the attempt
            if text.count('(') >= 100:
                outcome = 'rejected'
            else:
                exc = e
        except Exception as e:  # noqa
            if (type(e).__module__ or '').split('.')[0] == 'hszinc':
                outcome = 'rejected'        # an error class of the library's own is a parse error too
            else:
                exc = e
        except BaseException as e:  # noqa
            exc = e
    finally:
        STATE['active'] = False
    tags = (case.get('slot', ''),)
    if HITS:
        raise Violation('canary-touched', case, 'code from the filter text ran: %s' % HITS[:5], tags)
    for ev in EVENTS:
        if ev[0] == 'exec':
            bad = sorted(n for n in ev[1] if n in idents or n.startswith('zzcanary'))
            if bad:
                raise Violation('payload-compiled-as-code', case, 'executed code refers to the names %r taken from the filter text' % bad, tags)
        elif ev[0] == 'compile' and ev[1]:
            src_idents = set(IDENT.findall(re.sub(r'("(?:\\.|[^"\\])*"|\'(?:\\.|[^\'\\])*\')', '""', ev[1])))
            bad = sorted(n for n in src_idents if n.startswith('zzcanary') or (n in idents and n not in STATE['allowed_names']))
            if bad and ev[2] == '<string>':
                raise Violation('payload-compiled-as-code', case, 'compiled source contains the identifiers %r taken from the filter text' % bad, tags)
        elif ev[0] == 'import' and 'zzcanary' in ev[1]:
            raise Violation('import', case, 'import of %r' % ev[1], tags)
        elif ev[0] == 'open' and ('canary' in ev[1] or ev[2] or not ev[1].startswith(KNOWN_PREFIXES)):
            # (reading its own data files, e.g. pytz zone files inside the installed package, is the library's business;
            # writing, or opening anything outside the interpreter / package / repository trees, is not)
            raise Violation('file-opened', case, 'open(%r%s)' % (ev[1], ' for writing' if ev[2] else ''), tags)
        elif ev[0] == 'danger':
            raise Violation('process-or-network', case, '%s %s' % (ev[1], ev[2]), tags)
    if exc is not None:
        raise Violation('non-parse-error', case, 'filter raised %s (only a parse error or ValueError is acceptable)' % describe_exc(exc),
                        tags + (type(exc).__name__,))
    after = snapshot()
    for k in ('gf', 'builtins', 'environ', 'cwd', 'canary_files', 'recursionlimit', 'switchinterval', 'pint-mode'):
        if snap[k] != after[k]:
            diff = (set(after[k]) ^ set(snap[k])) if isinstance(snap[k], (frozenset, tuple)) else (snap[k], after[k])
            raise Violation('global-state-changed', case, '%s changed: %r' % (k, list(diff)[:5] if isinstance(diff, set) else diff), tags)
    for k in sorted(set(snap['public-state']) & set(after['public-state'])):
        if snap['public-state'][k] != after['public-state'][k]:
            x, y = snap['public-state'][k], after['public-state'][k]
            if x[0] == y[0] == 'dict':
                what = 'entries added/changed: %r' % sorted(repr(i) for i in (x[1] ^ y[1]))[:4]
            else:
                what = '%r -> %r' % (x, y)
            raise Violation('global-state-changed', case, 'public module-level state %s changed: %s' % (k, what[:300]), tags)
    newmods = set(m for m in after['modules'] - snap['modules'] - STATE['allowed_modules']
                  if m.split('.')[0] not in STATE['allowed_tops'] or 'zzcanary' in m)
    if newmods:
        raise Violation('module-imported', case, 'new modules %r' % sorted(newmods)[:5], tags)
    d = model.diff(gm, model.grid_to_model(g))
    if not d and model.raw_snapshot(g) != raw:
        d = 'row dicts of the grid were touched (keys added or values replaced)'
    if d:
        raise Violation('grid-mutated', case, d, tags)
    return outcome


# ---------------------------------------------------------------- payloads / slots / shapes

def payloads():
    out = []
    for n in range(NCANARY):
        c = 'zzcanary%d' % n
        out += [
            '%s("tok")' % c, c, '%s.attr' % c, '%s()' % c, '__import__("zzcanarymod%d")' % n,
            'open("%s/%d","w")' % (CANARY_DIR, n), 'exec("%s()")' % c, 'eval("%s()")' % c, 'compile("%s()","<string>","exec")' % c,
            'getattr(%s,"x")' % c, '[%s() for _ in [0]]' % c, '(lambda: %s())()' % c, '%s() or 1' % c,
            '1) or %s("x"' % c, '") or %s("x' % c, '\\") or %s(\\"x' % c, '"+%s()+"' % c, "'+%s()+'" % c,
            '`) or %s(`' % c, '{%s}' % c, '${%s()}' % c, '%%s %s' % c, '\n%s()' % c, ';%s()' % c, '# %s' % c, '\\', '"""%s()"""' % c,
            '__class__.__mro__', '__builtins__', 'globals()["%s"]()' % c, 'vars()', '%s if 1 else 0' % c,
            '__import__("os").system("touch %s/%d")' % (CANARY_DIR, n), '%s)(' % c, '%s"("' % c, 'x)==%s("a")or(x' % c,
        ]
        if n == 0:
            out += ['clear', 'popitem', 'pop', 'update', 'copy', 'keys', 'items', 'values', 'setdefault', 'fromkeys', 'get',
                    '__class__', '__dict__', '__init__', 'use_pint("1")', 'use_pint', 'to_pint("m")', 'ureg', 'long("1")',
                    'Quantity("1")', 'Grid("3.0")', 'parse_filter("x")', 'filter_function("x")', 'lru_cache', 'itertools',
                    ' and '.join('t%d == %d' % (i, i) for i in range(60)), ' or '.join('not t%d' % i for i in range(120)),
                    'Cuba', 'Zulu', 'Etc/GMT+5', 'Factory', 'posixrules', 'Japan', 'NZ', 'Turkey', 'EST', 'Tokyo', 'UTC', 'GMT0', 'Navajo', 'text/plain', 'image/png; x=1',
                    '(' * 30 + 'x' + ')' * 30, '(' * 140 + 'x' + ')' * 140, '(' * 400 + 'x == 1' + ')' * 400, '"' + 'A' * 5000 + '"',
                    'print("zz")', 'len("abc")', 'repr', 'id', 'type', 'str', 'NOT_FOUND', '_get_path', 'Ref("a")', 'XStr("a","b")',
                    'MARKER', 'os', 'sys', 'datetime.date(2020,1,1)', 'timezone("UTC")', 'NA', 'float("nan")', 'True', 'None']
    seen, res = set(), []
    for p in out:
        if p not in seen:
            seen.add(p)
            res.append(p)
    return res


def zinc_str(s):
    out = []
    for ch in s:
        if ch in '"\\':
            out.append('\\' + ch)
        elif ch == '\n':
            out.append('\\n')
        elif ch == '$':
            out.append('\\$')
        elif ord(ch) < 0x20:
            out.append('\\u%04x' % ord(ch))
        else:
            out.append(ch)
    return '"' + ''.join(out) + '"'


def zinc_uri(s):
    return '`' + s.replace('\\', '\\\\').replace('`', '\\`').replace('\n', '\\n') + '`'


def slots(p):
    """(slot name, atom text) for payload p"""
    ident = re.sub(r'[^A-Za-z0-9_]', '', p) or 'p'
    lower = 'p' + ident
    yield 'str-escaped', 'x == %s' % zinc_str(p)
    yield 'str-raw', 'x == "%s"' % p
    yield 'uri-escaped', 'x == %s' % zinc_uri(p)
    yield 'uri-raw', 'x == `%s`' % p
    yield 'ref-name', 'x == @%s' % p
    yield 'ref-dis-escaped', 'x == @r %s' % zinc_str(p)
    yield 'ref-dis-raw', 'x == @r "%s"' % p
    yield 'xstr-type-raw', 'x == %s("v")' % p
    yield 'xstr-type-ident', 'x == %s("v")' % ident
    yield 'xstr-type-call', 'x == %s' % p
    yield 'xstr-payload-escaped', 'x == Foo(%s)' % zinc_str(p)
    yield 'xstr-payload-raw', 'x == Foo("%s")' % p
    yield 'unit', 'x == 5%s' % p
    yield 'unit-ident', 'x == 5%s' % ident
    yield 'tz-name', 'x == 2020-01-01T00:00:00Z %s' % p
    yield 'tz-name-ident', 'x == 2020-01-01T00:00:00Z Z%s' % ident
    yield 'tag-name', p
    yield 'tag-name-ident', lower
    yield 'tag-cmp', '%s == 1' % p
    yield 'tag-not', 'not %s' % p
    yield 'path-last', 'r->%s' % p
    yield 'path-last-ident', 'r->%s' % lower
    yield 'path-first', '%s->x' % p
    yield 'list-element', 'x == [%s]' % p
    yield 'list-str', 'x == [%s, 1]' % zinc_str(p)
    yield 'dict-tag', 'x == {%s:1}' % p
    yield 'dict-tag-ident', 'x == {%s:1}' % lower
    yield 'dict-value', 'x == {a:%s}' % zinc_str(p)
    yield 'dict-value-raw', 'x == {a:%s}' % p
    yield 'bin', 'x == Bin(%s)' % p
    yield 'value-raw', 'x == %s' % p
    yield 'value-raw-lt', 'x < %s' % p


SHAPES = ['%s', '(%s)', 'y and %s', '%s or y', 'y and z and %s', 'not y or (%s)']


def all_cases():
    for p in payloads():
        for slot, atom in slots(p):
            for si, sh in enumerate(SHAPES):
                yield {'filter': sh % atom, 'payload': p, 'slot': slot, 'shape': si}


# not filters by the grammar of Appendix C (tag names are [a-z][a-zA-Z0-9_]*): must be rejected with a parse error
MUST_REJECT = ['__class__', 'Exec', 'a->__dict__', '_x', '9a', 'a->B', 'x == {__reduce__}', 'x == {Foo}', 'not _a', 'A == 1',
               'x and __import__', 'x or Y', 'x->_y == 1', 'x ==', '== 1', 'x == == 1', 'x and', '()', 'x y', 'x == 1 2',
               'x === 1', 'x = 1', 'x == "unterminated', 'x == `unterminated', 'x == 1 and (y', 'x == 1)']


def check_must_reject(text):
    import pyparsing
    install()
    case = {'filter': text, 'payload': '', 'slot': 'must-reject'}
    g = probe_grid()
    try:
        g.filter(text)
    except (pyparsing.ParseBaseException, ValueError):
        return
    except BaseException as e:  # noqa
        if isinstance(e, Exception) and (type(e).__module__ or '').split('.')[0] == 'hszinc':
            return
        raise Violation('non-parse-error', case, 'invalid filter raised %s instead of a parse error' % describe_exc(e), ('must-reject',))
    raise Violation('invalid-filter-accepted', case, 'a text that is not a filter was accepted and evaluated', ('must-reject',))


def plan(tier, seed, excl):
    q = tier == 'quick'
    t = [('must-reject', {})]
    t += [('table', {'shard': i, 'of': 16, 'full': True}) for i in range(16)]
    t += [('random', {'shard': i, 'n': 3000 if q else 15000}) for i in range(8)]
    t += [('atheris', {'shard': i, 'runs': 5000 if q else 100000, 'empty_corpus': i == 0}) for i in range(2 if q else 4)]
    return t


def run(part, args, env):
    acc = Acc(part)
    install()
    if part == 'must-reject':
        n = 0
        for text in MUST_REJECT:
            for sh in SHAPES[:4]:
                n += 1
                try:
                    check_must_reject(sh % text if sh != '%s' else text)
                except Violation as v:
                    acc.violation(v)
        acc.bulk(n, n, labels=('must-reject',))
        acc.sample({'filter': MUST_REJECT[0], 'expect': 'parse error'})
    elif part == 'table':
        n = nt = 0
        for i, case in enumerate(all_cases()):
            if i % args['of'] != args['shard']:
                continue
            if not args['full'] and case['shape'] not in (0, 4) and (i // 16) % 3:
                continue
            try:
                r = check(case)
            except Violation as v:
                acc.violation(v)
                if len(acc.violations) >= acc.MAX_VIOL:
                    break
                continue
            n += 1
            nt += r == 'compiled'
            acc.labels['slot:%s:%s' % (case['slot'], r)] += 1
            if n % 701 == 1:
                acc.sample(dict(case, outcome=r))
        acc.bulk(n, nt)
        acc.exhaustive['payload x slot x enclosing shape table'] = bool(args['full'])
    elif part == 'atheris':
        from .. import fuzz
        work = os.path.join(VERIF_DIR, '.work', 'fuzz-c12-%d-%d' % (os.getpid(), args['shard']))
        seeds = [c['filter'] for i, c in enumerate(all_cases()) if i % 211 == 0]
        toks = ['zzcanary1', '("', '")', ' == ', ' and ', ' or ', 'not ', '->', '__import__', 'exec', 'x', '@', '`', '"', '\\', '5kW',
                'Foo(', '[', ']', '{', '}', ':', '2020-01-01', 'T00:00:00Z', ' UTC', '(', ')', 'open', 'lambda']
        res = fuzz.run_campaign('C12', shard_seed(env['seed'], PROPERTY, 'fz', args['shard']) % 100000 + 1, args['runs'],
                                [] if args['empty_corpus'] else seeds, toks, work)
        if res['violation']:
            v = res['violation']
            acc.violation(Violation(v['stage'], v['case'], v['detail'], tuple(v.get('tags', ()))))
        if res.get('failed'):
            raise RuntimeError(res['note'])
        acc.bulk(res['evaluations'], res['nontrivial'], labels=('atheris',))
        acc.notes.append('atheris shard %d (%s corpus): %s, outcomes %r' % (
            args['shard'], 'empty' if args['empty_corpus'] else 'seeded', res['note'], res['outcomes']))
        acc.sample({'atheris': 'libFuzzer campaign', 'runs': res['evaluations'], 'outcomes': res['outcomes']})
    else:
        from hypothesis import strategies as st
        frag = st.sampled_from(payloads() + ['"', '\\', '`', '(', ')', '==', ' and ', ' or ', 'not ', '->', 'x', 'y', '@', '5', '[', ']',
                                           '{', '}', ':', ',', '$', '\n', '#', ';', 'Foo(', '")', 'zzcanary1', '.', '__', 'lambda:', ' '])
        payload = st.lists(frag, min_size=1, max_size=4).map(''.join)
        strat = st.builds(lambda p, si, sh: (p, si, sh), payload, st.integers(0, 40), st.sampled_from(SHAPES))

        def body(t):
            p, si, sh = t
            sl = list(slots(p))
            slot, atom = sl[si % len(sl)]
            case = {'filter': sh % atom, 'payload': p, 'slot': slot}
            r = check(case)
            acc.case(case['filter'], r == 'compiled', labels=('random:' + r,))
            if acc.want_sample() and len(case['filter']) < 160:
                acc.sample(dict(case, outcome=r))
        run_hypothesis(acc, body, strat, args['n'], shard_seed(env['seed'], PROPERTY, args['shard']))
    return acc


def replay(stage, case):
    if case.get('slot') == 'must-reject':
        return check_must_reject(case['filter'])
    check(case)
