"""C01 - ZINC round trip: parse(dump(g)) is g, for every valid grid."""
from .. import gen, model, rt
from ..core import Acc, Violation, run_hypothesis, shard_seed

PROPERTY = 'C01'
FO_RULE = ' Date-times whose tzinfo is a bare UTC offset (every quarter hour from -14:00 to +14:00 and odd offsets, at six instants): the writer may refuse them, but what it writes must denote the same instant at the same offset.'
SIZES_RULE = ' Size sweep: one dimension of the document at a time (rows, columns, grid/column metadata tags, list items, dict tags, string/URI/Ref-display/XStr length, grids per document, rows of a nested grid, distinct string cells, distinct numbers/dates/times, digits, nested lists/dicts) is pushed over every power-of-two and power-of-ten boundary up to the limits in gen.SIZE_LIMIT and judged by the same oracle.'
IND_RULE = ' Independent results: after a round trip the caller overwrites and extends every mutable part of the parsed grids (metadata, column metadata, row dicts, list and dict cells, nested grids) and then of the dumped grids; a second parse of the same text, a further round trip of the same model and (JSON) the pre-decoded input object must be unaffected.'
FMT = 'zinc'
RULE = ('model grids over the Haystack value domain of DESIGN.md 1.4 (every kind in grid meta / column meta / cells / list '
        'items / dict values / nested-grid cells, all code points, boundary floats, all mapped zones, nesting <= 3, '
        'version 2.0 or 3.0, single grid or list of 1-3 grids) built by Hypothesis, plus a deterministic catalogue '
        '(boundary payloads per kind, every zone, every kind in every position) and the scalar path '
        'parse_scalar(dump_scalar(v)). Oracle: kind-strict model comparison of the parsed result with the input '
        '(own comparator, not Grid.__eq__). Non-trivial = at least one non-null value somewhere in the grid / a '
        'non-null scalar; distinct by canonical hash of the model.' + SIZES_RULE + ' After a refused dump (a cell of no Haystack kind, a zone-less date-time, NA in a 2.0 grid - in the grid itself, in a grid nested in it, or in the grid that encloses it) and repair of that cell, the same Grid object must round-trip alone, twice in one document and nested.' + FO_RULE + IND_RULE)
ASSUMPTIONS = ['value domain restrictions of DESIGN.md 1.4 (tag-name syntax, unit alphabet not starting with "_", '
               'Quantity values finite, years 2..9998 for date-times, xstr type name other than "Bin")',
               'a missing row key and a None cell are the same cell']
FEATURES = {}
EXHAUSTIVE_CLAIM = False


def plan(tier, seed, excl):
    q = tier == 'quick'
    t = [('catalogue-scalars', {'ver': v, 'shard': i, 'of': 2}) for v in ('2.0', '3.0') for i in range(2)]
    t += [('catalogue-grids', {'shard': i, 'of': 4}) for i in range(4)]
    t += [('scalars', {'shard': i, 'n': 4000 if q else 60000}) for i in range(10)]
    t += [('sizes', {'shard': i, 'of': 16, 'tier': tier}) for i in range(16)]
    t.append(('after-failed-dump', {}))
    t += [('fixed-offset', {'order': k}) for k in range(3)]
    t += [('independent-results', {'shard': i, 'of': 4, 'n': 120 if q else 1500}) for i in range(4)]
    t += [('grids', {'shard': i, 'n': 700 if q else 8000}) for i in range(16)]
    return t


def run(part, args, env, fmt=FMT):
    from hypothesis import strategies as st
    acc = Acc(part)
    excl = env['excl']
    if part == 'catalogue-scalars':
        for i, m in enumerate(gen.catalogue_scalars(args['ver'], excl)):
            if i % args['of'] != args['shard']:
                continue
            case = {'kind': 'scalar', 'ver': args['ver'], 'value': m}
            acc.case(case, m[0] != 'null', labels=(m[0] + '@scalar',))
            try:
                rt.check_scalar(case, fmt)
            except Violation as v:
                acc.violation(v)
        acc.exhaustive['catalogue of boundary scalars x versions'] = True
    elif part == 'catalogue-grids':
        for i, m in enumerate(gen.catalogue_grids(excl)):
            if i % args['of'] != args['shard']:
                continue
            case = {'kind': 'doc', 'single': i % 3 != 0, 'grids': [m] if i % 3 else [m, m], 'form': 'text'}
            acc.case(case, rt.doc_nontrivial([m]), labels=rt.labels_for([m]))
            if i % 97 == 0:
                acc.sample(case)
            try:
                rt.check_doc(case, fmt)
            except Violation as v:
                acc.violation(v)
        acc.exhaustive['every kind sample x every position x versions'] = True
    elif part == 'after-failed-dump':
        n = 0
        for i, m in enumerate(gen.catalogue_grids(excl)):
            if i % 7:
                continue
            for j, poison in enumerate(rt.POISONS):
                where = ('cell', 'nested', 'outer')[(i // 7 + j) % 3]
                case = {'kind': 'after-failed', 'grid': m, 'poison': poison, 'where': where}
                n += 1
                try:
                    rt.check_after_failed(case, fmt)
                except Violation as v:
                    acc.violation(v)
        acc.bulk(n, n, labels=('after-failed-dump',))
        acc.sample({'kind': 'after-failed', 'grids': n})
    elif part == 'fixed-offset':
        rt.fixed_offset_part(acc, fmt, 'own', args.get('order', 0))
    elif part == 'independent-results':
        for i, m in enumerate(gen.catalogue_grids(excl)):
            if i % args['of'] != args['shard']:
                continue
            case = {'kind': 'scribble', 'single': i % 3 != 0, 'grids': [m] if i % 3 else [m, m]}
            acc.case(case, rt.doc_nontrivial([m]), labels=rt.labels_for([m]) | {'scribble'})
            try:
                rt.check_independent_results(case, fmt)
            except Violation as v:
                acc.violation(v)
        for ver in ('2.0', '3.0'):
            for m in gen.catalogue_scalars(ver, excl):
                if m[0] in ('list', 'dict', 'grid'):
                    case = {'kind': 'scribble-scalar', 'ver': ver, 'value': m}
                    acc.case(case, True, labels=('scribble-scalar',))
                    try:
                        rt.check_independent_scalar(case, fmt)
                    except Violation as v:
                        acc.violation(v)
        strat = gen.grid_docs(excl, depth=2).map(lambda d: {'kind': 'scribble', 'single': d['single'], 'grids': d['grids']})

        def body(case):
            acc.case(case, rt.doc_nontrivial(case['grids']), labels=rt.labels_for(case['grids']) | {'scribble'})
            if acc.want_sample() and len(repr(case)) < 1500:
                acc.sample(case)
            rt.check_independent_results(case, fmt)
        run_hypothesis(acc, body, strat, args['n'], shard_seed(env['seed'], PROPERTY, fmt, 'ind', args['shard']))
    elif part == 'sizes':
        sizes_part(acc, args, lambda case: rt.check_doc(case, fmt), {'form': 'text'})
    elif part == 'scalars':
        strat = st.sampled_from(['2.0', '3.0']).flatmap(
            lambda v: gen.values(v, depth=1, excl=excl).map(lambda m: {'kind': 'scalar', 'ver': v, 'value': m}))

        def body(case):
            m = case['value']
            acc.case(case, m[0] != 'null', labels=(m[0] + '@scalar',))
            if acc.want_sample():
                acc.sample(case)
            rt.check_scalar(case, fmt)
        run_hypothesis(acc, body, strat, args['n'], shard_seed(env['seed'], PROPERTY, fmt, 's', args['shard']))
    elif part == 'grids':
        forms = forms_for(fmt)
        strat = st.builds(lambda d, f: dict(d, kind='doc', form=f), gen.grid_docs(excl, depth=2), forms)

        def body(case):
            acc.case(case, rt.doc_nontrivial(case['grids']), labels=rt.labels_for(case['grids']) | {
                'multi' if not case['single'] else 'single', 'form:' + case['form']})
            if acc.want_sample() and len(repr(case)) < 1500:
                acc.sample(case)
            rt.check_doc(case, fmt)
        run_hypothesis(acc, body, strat, args['n'], shard_seed(env['seed'], PROPERTY, fmt, 'g', args['shard']))
    for k, v in gen.ALTERED.items():
        acc.excluded[k] += v
    return acc


def sizes_part(acc, args, check, extra=None, skip=None):
    n = 0
    for case, labels in rt.sized_cases(args['tier'], args['shard'], args['of'], extra):
        if skip is not None and skip(case):
            continue
        acc.case(case['sized'], True, labels=labels)
        n += 1
        if n % 40 == 1:
            acc.sample({'sized': case['sized']})
        try:
            check(case)
        except Violation as v:
            acc.violation(v)
    acc.exhaustive['size sweep (every boundary in gen.SIZE_STEPS up to gen.SIZE_LIMIT, per axis and version)'] = True


def forms_for(fmt):
    from hypothesis import strategies as st
    if fmt == 'zinc':
        return st.sampled_from(['text', 'text', 'bytes:utf-8', 'bytes:utf-16', 'bytes:latin-1'])
    return st.sampled_from(['text', 'obj', 'bytes:utf-8', 'bytes:utf-16', 'bytes:utf-32', 'bytes:latin-1', 'bytes:cp1252'])


def replay(stage, case, fmt=FMT):
    if case['kind'] == 'fixed-offset' and 'upto' in case:
        return rt.check_fixed_offset_seq(case, fmt, 'own')
    if case['kind'] == 'fixed-offset':
        return rt.check_fixed_offset(case, fmt, 'own')
    if case['kind'] == 'after-failed':
        return rt.check_after_failed(case, fmt)
    if case['kind'] == 'scribble':
        return rt.check_independent_results(case, fmt)
    if case['kind'] == 'scribble-scalar':
        return rt.check_independent_scalar(case, fmt)
    if case['kind'] == 'scalar':
        rt.check_scalar(case, fmt)
    else:
        rt.check_doc(case, fmt)
