"""C11 - Grid.filter selects exactly the rows the Haystack filter denotes."""
import itertools

from .. import filter_ref as fr
from .. import model
from ..core import Acc, Violation, run_hypothesis, shard_seed, describe_exc
from ..zinc_ref import Plan

PROPERTY = 'C11'
RULE = ('filter ASTs (has / not / six comparisons against bool, number, quantity, str, uri, ref, date, time, date-time literals / '
        'a->b paths / n-ary and, or / parentheses; tag names incl. note, android, order, nota) are rendered with 1-3 blanks, '
        '0-2 blanks around comparison operators, redundant parentheses and literal spelling variants, and evaluated by '
        'grid.filter(expr, limit) on grids whose rows take, per mentioned tag, the values relevant to the filter\'s atoms: '
        'absent, None, marker, equal to the literal, just below, just above, another kind (incl. bool vs number, number vs '
        'quantity, other unit, str vs uri), Ref to an existing row, dangling Ref, non-Ref where a Ref is needed. Oracle: a '
        'reference evaluator written from the Haystack filter semantics (DESIGN.md Appendix C): selected rows by identity '
        'and order, cut at limit; result carries version/metadata/columns; source grid unchanged; no exception. Exhaustive: '
        'all filters with <= 3 atoms over a 16-atom alphabet x 8 connective shapes against a grid holding every combination '
        'of 13 x 13 x 6 tag valuations. Non-trivial = the filter selects a proper non-empty subset, or has >= 3 operands, or '
        'contains ->; distinct by (filter text, grid).')
ASSUMPTIONS = ['row ids are plain strings and a Ref matches the row whose str(id) equals the Ref name (hszinc\'s documented '
               'convention in its tests)', 'Ref values compared with ref literals carry no display name; Ref equality is by name',
               'ordering is generated only for number, quantity of the same unit, str, uri, date, time, date-time',
               'a None cell is an absent tag (Haystack has no null tag values)', 'number literals are finite']
FEATURES = {
    'filter.nary': 'and/or chains of three or more operands drop all but the first two',
    'filter.keyword-prefix': 'tag names starting with not/and/or are split at the keyword (note -> not e)',
    'filter.order-typeerror': 'ordering comparison against an absent tag or a value of another kind raises TypeError',
    'filter.temporal-literal': 'date, time and date-time literals crash when the compiled filter runs',
    'filter.quantity-literal': 'a quantity literal preceded by a blank does not parse',
    'filter.str-escape': 'escapes inside string/URI literals are not decoded',
    'filter.null-cell': 'a cell holding None counts as present',
    'filter.path-non-ref': 'a->b through a value that is not a Ref raises instead of being absent',
    'filter.kind-blind-eq': 'equality ignores kinds (True == 1, 5 == 5kW) or raises for quantities of different units',
}
EXHAUSTIVE_CLAIM = True

LITS = {
    'num': (['num', 5.0], ['num', 4.0], ['num', 6.0], ['str', '5']),
    'qty': (['qty', 5.0, 'kW'], ['qty', 4.0, 'kW'], ['qty', 6.0, 'kW'], ['qty', 5.0, 'W']),
    'str': (['str', 'm'], ['str', 'a'], ['str', 'z'], ['uri', 'm']),
    'uri': (['uri', 'm'], ['uri', 'a'], ['uri', 'z'], ['str', 'm']),
    'date': (['date', 2020, 6, 15], ['date', 2020, 6, 14], ['date', 2020, 6, 16], ['str', '2020-06-15']),
    'time': (['time', 12, 0, 0, 0], ['time', 11, 59, 59, 0], ['time', 12, 0, 1, 0], ['num', 12.0]),
    'dt': (['dt', '2020-06-15T12:00:00.000000', 0, 'UTC'], ['dt', '2020-06-15T11:00:00.000000', 0, 'UTC'],
           ['dt', '2020-06-15T13:00:00.000000', 0, 'UTC'], ['date', 2020, 6, 15]),
    'bool': (['bool', True], ['bool', False], ['bool', False], ['num', 1.0]),
    'ref': (['ref', 'id0', None], ['ref', 'id1', None], ['ref', 'zz', None], ['str', 'id0']),
}
EXTRA_OTHER = {'num': [['bool', True], ['qty', 5.0, 'kW']], 'qty': [['num', 5.0]], 'bool': [['num', 0.0], ['str', 'true']]}
ORDERED = ('num', 'qty', 'str', 'uri', 'date', 'time', 'dt')


def value_candidates(lit):
    """row values relevant to a literal: equal, below, above, other kinds"""
    eq, lo, hi, other = LITS[lit[0]]
    out = [eq, lo, hi, other] + EXTRA_OTHER.get(lit[0], [])
    if lit != eq:
        out.append(lit)
        out.append(lit)
    if lit[0] in ('str', 'uri') and ' '.join(lit[1].split()) != lit[1]:
        out.append([lit[0], ' '.join(lit[1].split())])      # the same text with its white space collapsed is another value
    return out


def build_grid(rows_spec, version='3.0', churn=0):
    """rows_spec: list of dict tag -> model value | 'ABSENT' | 'NONE' | 'MARKER'; ids id0..
    churn: the grid has a history - a row that was appended and deleted again (1), a row that was replaced (2), a
    look-up by id before the rows were complete (3), a batch extend refused half-way (4) - none of which is visible in its rows;
    (5) the refused batch again, its accepted prefix left in place"""
    import hszinc
    g = hszinc.Grid(version=version)
    g.metadata['gm'] = 'meta'
    tags = []
    for rs in rows_spec:
        for t in rs:
            if t not in tags:
                tags.append(t)
    g.column['id'] = {}
    for t in tags:
        g.column[t] = {'dis': t}
    for i, rs in enumerate(rows_spec):
        row = {'id': 'id%d' % i}
        for t, v in rs.items():
            if v == 'ABSENT':
                continue
            if v == 'NONE':
                row[t] = None
            elif v == 'MARKER':
                row[t] = hszinc.MARKER
            else:
                row[t] = model.from_model(v)
        g.append(row)
        if churn == 3 and i == 0:
            g.get('id0')
    if churn == 1:
        g.append({'id': 'gone', 'a': 1.0})
        del g[len(g) - 1]
    elif churn == 2 and len(g):
        first = g[0]
        g[0] = {'id': 'replaced'}
        g[0] = first
    elif churn == 4:
        # a batch that is refused half-way (its last member is no row at all); whatever part of it the grid kept is taken
        # out again, so rows 'nope' / 'ghost' are not in the grid and a Ref to them dangles
        n = len(g)
        ghost = dict((t, 5.0) for t in tags)
        try:
            g.extend([dict(ghost, id='nope'), dict(ghost, id='ghost'), 42])
        except Exception:  # noqa - how a bad batch is refused is C14's subject
            pass
        while len(g) > n:
            del g[len(g) - 1]
    elif churn == 5:
        # the same refused batch, but whatever part of it the grid kept stays: those rows are rows like any others (they
        # carry the ids that dangling references of the small scope point to, so a->b must now find them - or not, if the
        # grid dropped them; the reference evaluator works on the rows the grid actually holds)
        g.get('id0')
        ghost = dict((t, 5.0) for t in tags)
        try:
            g.extend([dict(ghost, id='nope'), dict(ghost, id='1'), 42])
        except Exception:  # noqa - how a bad batch is refused is C14's subject
            pass
    return g


def excluded(ast, text, rows_spec, excl):
    """does this case fall into an open finding's feature class?  (returns the key or None)"""
    if not excl:
        return None
    ats = list(fr.atoms(ast))
    if 'filter.nary' in excl and fr.count_operands(ast) >= 3:
        return 'filter.nary'
    names = [n for a in ats for n in (a[1] if a[0] != 'cmp' else a[2])]
    if 'filter.keyword-prefix' in excl and any(n.startswith(('not', 'and', 'or')) for n in names):
        return 'filter.keyword-prefix'
    for a in ats:
        if a[0] == 'cmp':
            k = a[3][0]
            if 'filter.temporal-literal' in excl and k in ('date', 'time', 'dt'):
                return 'filter.temporal-literal'
            if 'filter.quantity-literal' in excl and k == 'qty':
                return 'filter.quantity-literal'
            if 'filter.str-escape' in excl and k in ('str', 'uri') and any(c in a[3][1] for c in '\\"`$\n\t') or \
                    ('filter.str-escape' in excl and k in ('str', 'uri') and '\\' in text):
                return 'filter.str-escape'
            if 'filter.order-typeerror' in excl and a[1] not in ('==', '!='):
                return 'filter.order-typeerror'
            if 'filter.kind-blind-eq' in excl:
                return 'filter.kind-blind-eq'
        if 'filter.path-non-ref' in excl and len(a[1] if a[0] != 'cmp' else a[2]) > 1:
            return 'filter.path-non-ref'
    if 'filter.null-cell' in excl and any(v == 'NONE' for rs in rows_spec for v in rs.values()):
        return 'filter.null-cell'
    return None


def _swap_kind(lit, variant):
    k = lit[0]
    if k == 'num':
        return [['str', repr(lit[1])], ['bool', bool(lit[1])], ['qty', lit[1], 'kW'], ['str', '%g' % lit[1]]][variant % 4]
    if k == 'bool':
        return [['num', 1.0 if lit[1] else 0.0], ['str', 'true' if lit[1] else 'false']][variant % 2]
    if k == 'str':
        return ['uri', lit[1]] if lit[1] and all(c == '/' or c.isalnum() for c in lit[1]) and lit[1].isascii() else ['str', lit[1] + ' ']
    if k == 'uri':
        return ['str', lit[1]]
    if k == 'qty':
        return [['num', lit[1]], ['qty', lit[1], 'W' if lit[2] != 'W' else 'kW']][variant % 2]
    if k == 'ref':
        return ['str', lit[1]]
    if k == 'date':
        return ['str', '%04d-%02d-%02d' % tuple(lit[1:4])]
    return None


def _map_atoms(node, fn):
    if node[0] in ('and', 'or'):
        return [node[0], [_map_atoms(c, fn) for c in node[1]]]
    if node[0] == 'paren':
        return ['paren', _map_atoms(node[1], fn)]
    return fn(node)


def siblings(ast):
    """filters that look like `ast` - same atoms in the same order - but mean something else: every literal replaced by
    an equal-looking literal of another kind, the connectives regrouped, and / or exchanged"""
    out = []
    for variant in (0, 1):
        def swap(a, variant=variant):
            if a[0] != 'cmp':
                return a
            l = _swap_kind(a[3], variant)
            if l is None:
                return a
            op = a[1] if (a[1] in ('==', '!=') or l[0] in ORDERED) else '=='
            return ['cmp', op, a[2], l]
        s = _map_atoms(ast, swap)
        if s != ast and s not in out:
            out.append(s)
    ats = list(fr.atoms(ast))
    if len(ats) >= 3:
        for s in (['or', [ats[0], ['and', ats[1:]]]], ['and', [['paren', ['or', ats[:2]]]] + ats[2:]],
                  ['and', ats[:-2] + [['paren', ['or', ats[-2:]]]]], ['or', [['and', ats[:-1]], ats[-1]]]):
            if s != ast and s not in out:
                out.append(s)
    elif len(ats) == 2 and ast[0] in ('and', 'or'):
        out.append(['or' if ast[0] == 'and' else 'and', ats])
    return out[:5]


def check(case, grid=None, excl=frozenset()):
    """case = {'ast', 'choices', 'rows', 'limit'[, 'siblings': True]}.  With siblings the look-alike filters of
    siblings(ast) are evaluated on the same grid first, then the filter itself, then the look-alikes again - each judged by
    the reference evaluator - so that nothing one filter leaves behind (a compiled function, a memo, an interned literal)
    can answer for another."""
    if case.get('siblings'):
        g = grid if grid is not None else build_grid(case['rows'], case.get('version', '3.0'), case.get('churn', 0))
        sibs = siblings(case['ast'])
        r = None
        for s in sibs + [None] + sibs[::-1]:
            c = dict(case, siblings=False)
            if s is not None:
                c['ast'] = s
            try:
                rr = check(c, g, excl)
            except Violation as v:
                raise Violation(v.stage, dict(case, text=v.case.get('text')), 'in a sequence of look-alike filters: ' + v.detail, v.tags)
            if s is None:
                r = rr
        return r
    import hszinc
    ast = case['ast']
    plan = Plan(case.get('choices', ()))
    text = fr.render(ast, plan)
    key = excluded(ast, text, case['rows'], excl)
    if key:
        return ('excluded', key)
    g = grid if grid is not None else build_grid(case['rows'], case.get('version', '3.0'), case.get('churn', 0))
    rows = list(g)
    limit = case.get('limit', 0)
    want = fr.select(ast, rows, limit)
    shown = dict(case, text=text)
    before = model.grid_to_model(g) if grid is None else None
    raw = model.raw_snapshot(g) if grid is None else None
    try:
        res = g.filter(text, limit) if limit else g.filter(text)
    except Exception as e:  # noqa
        raise Violation('filter-raises', shown, '%r raised %s' % (text, describe_exc(e)), (type(e).__name__,))
    if not isinstance(res, hszinc.Grid):
        raise Violation('result-type', shown, 'filter returned %s' % type(res).__name__)
    got = list(res)
    if [id(r) for r in got] != [id(r) for r in want]:
        gi = [r.get('id') for r in got]
        wi = [r.get('id') for r in want]
        extra = [i for i in gi if i not in wi][:4]
        missing = [i for i in wi if i not in gi][:4]
        ex_rows = [r for r in rows if r.get('id') in (extra + missing)][:3]
        raise Violation('wrong-rows', shown, '%r selected %d rows, reference %d; wrongly selected %r, wrongly dropped %r; e.g. %r' % (
            text, len(got), len(want), extra, missing, ex_rows), ('extra' if extra else 'missing',))
    if str(res.version) != str(g.version) or list(res.metadata.items()) != list(g.metadata.items()) or \
            list(res.column.keys()) != list(g.column.keys()):
        raise Violation('result-header', shown, 'result does not carry version/metadata/columns')
    if '->' in text and grid is None and not limit:
        # a filter result is a grid in its own right: filtered again, a reference is followed to a row *of the result*
        # (a row that was not selected is not there any more), and rows added to the result do not become reachable
        # from the source
        want2 = fr.select(ast, want, 0)
        try:
            got2 = list(res.filter(text))
        except Exception as e:  # noqa
            raise Violation('filter-raises', shown, 'filtering the result again: %r raised %s' % (text, describe_exc(e)), (type(e).__name__,))
        if [id(r) for r in got2] != [id(r) for r in want2]:
            raise Violation('wrong-rows', shown, 'result of %r filtered with it again: selected ids %r, reference %r' % (
                text, [r.get('id') for r in got2], [r.get('id') for r in want2]), ('refilter',))
        ghost = {'id': 'zzGhostTarget', 'a': 5.0, 'b': 5.0, 'r': hszinc.Ref('zzGhostTarget')}
        probe = {'id': 'zzProbe', 'r': hszinc.Ref('zzGhostTarget')}
        try:
            res.append(ghost)
            g.append(probe)
        except Exception:      # noqa - a grid whose columns do not admit these rows: nothing to observe
            pass
        else:
            try:
                rows3 = list(g)
                want3 = fr.select(ast, rows3, 0)
                got3 = list(g.filter(text))
                if [id(r) for r in got3] != [id(r) for r in want3]:
                    raise Violation('wrong-rows', shown, 'after a row was added to an earlier *result*, %r on the source selected ids %r, reference %r' % (
                        text, [r.get('id') for r in got3], [r.get('id') for r in want3]), ('result-shares-index',))
            finally:
                g.pop()
    if before is not None:
        d = model.diff(before, model.grid_to_model(g))
        if not d and model.raw_snapshot(g) != raw:
            d = 'row dicts of the source grid were touched (keys added or values replaced)'
        if d:
            raise Violation('source-mutated', shown, d)
    return ('ok', len(want), len(rows), text, plan)


# ---------------------------------------------------------------- exhaustive small scope

ATOMS = [['has', ['a']], ['not', ['a']], ['cmp', '==', ['a'], ['num', 5.0]], ['cmp', '<', ['a'], ['num', 5.0]],
         ['cmp', '>=', ['a'], ['num', 5.0]], ['has', ['b']], ['not', ['b']], ['cmp', '!=', ['b'], ['num', 5.0]],
         ['has', ['r', 'a']], ['not', ['r', 'a']], ['cmp', '==', ['r', 'a'], ['num', 5.0]], ['cmp', '>', ['r', 'a'], ['num', 5.0]],
         # literals that Python considers equal although their Haystack kinds differ (1 / true, 5 / 5kW, 5kW / 5W)
         ['cmp', '==', ['a'], ['num', 1.0]], ['cmp', '==', ['b'], ['bool', True]], ['cmp', '==', ['b'], ['qty', 5.0, 'kW']],
         ['cmp', '<=', ['a'], ['qty', 5.0, 'W']]]
A_VALS = ['ABSENT', 'NONE', 'MARKER', ['num', 5.0], ['num', 4.0], ['num', 6.0], ['str', 'x'], ['bool', True], ['num', 1.0],
          ['qty', 5.0, 'kW'], ['num', 0.0], ['bool', False], ['str', '']]
R_VALS = [['ref', 'id0', None], ['ref', 'id1', None], ['ref', 'nope', None], ['str', 'id0'], 'ABSENT', ['ref', '1', None]]


def small_scope_rows():
    rows = [{'a': ['num', 5.0], 'b': ['num', 4.0], 'r': ['ref', 'id1', None]},   # id0: target with a == 5
            {'a': 'ABSENT', 'b': ['num', 5.0], 'r': ['ref', 'id0', None]}]       # id1: target without a
    for a in A_VALS:
        for b in A_VALS:
            for r in R_VALS:
                rows.append({'a': a, 'b': b, 'r': r})
    return rows


def small_scope_filters():
    """(group, ast): filters of one group are made of the same atoms in the same order and differ only in connectives
    and grouping; a group is always evaluated in one process, back to back"""
    g = 0
    for x in ATOMS:
        yield g, x
        g += 1
    for x, y in itertools.product(ATOMS, repeat=2):
        yield g, ['and', [x, y]]
        yield g, ['or', [x, y]]
        g += 1
    for x, y, z in itertools.product(ATOMS, repeat=3):
        yield g, ['and', [x, y, z]]
        yield g, ['or', [x, y, z]]
        yield g, ['or', [['and', [x, y]], z]]
        yield g, ['or', [x, ['and', [y, z]]]]
        yield g, ['and', [['paren', ['or', [x, y]]], z]]
        yield g, ['and', [x, ['paren', ['or', [y, z]]]]]
        g += 1


# ---------------------------------------------------------------- random filters

def strategies(excl):
    from hypothesis import strategies as st
    from .. import gen
    tags = st.sampled_from(['a', 'b', 'c', 'note', 'android', 'order', 'nota', 'x1', 'dis', 'andy', 'oro', 'curVal'])
    rtags = st.sampled_from(['r', 'siteRef', 'notRef'])
    strlit = st.one_of(st.sampled_from(['m', 'a b', 'q"t', 'back\\slash', 'tab\there', u'caf\xe9', '$x', '', 'line\nbreak', 'AHU  1', u'a\xa0b',
                                        ' lead', 'trail ', 'x   y', u'\u2003em', 'and or not', '(a)', 'a->b', '== 1']),
                       gen.text(4)).map(lambda s: ['str', s])
    urilit = st.sampled_from(['m', 'http://x/y?z=1', 'a`b', u'\xe9']).map(lambda s: ['uri', s])
    numlit = st.one_of(st.sampled_from([5.0, 0.0, -1.5, 1e6, 1e-3]), st.integers(-50, 50).map(float)).map(lambda v: ['num', v])
    lit = st.one_of(numlit, strlit, urilit, st.sampled_from([LITS[k][0] for k in sorted(LITS)]),
                    st.sampled_from([LITS[k][0] for k in sorted(LITS)]), st.sampled_from([['num', 1.0], ['bool', True], ['num', 0.0], ['bool', False]]),
                    st.sampled_from([['qty', 5.0, 'kW'], ['qty', 2.5, u'\xb0C'], ['qty', 100.0, '%'], ['qty', 1.0, 'kWh/m_']]))
    path = st.one_of(tags.map(lambda t: [t]), tags.map(lambda t: [t]), st.tuples(rtags, tags).map(list),
                     st.tuples(rtags, rtags, tags).map(list))

    def cmp_atom(p, op, l):
        if op not in ('==', '!=') and l[0] not in ORDERED:
            op = '=='
        return ['cmp', op, p, l]
    cmpa = st.builds(cmp_atom, path, st.sampled_from(fr.CMP_OPS), lit)
    atom = st.one_of(path.map(lambda p: ['has', p]), path.map(lambda p: ['not', p]), cmpa, cmpa, cmpa, cmpa)

    def tree(depth):
        if depth == 0:
            return atom
        sub = tree(depth - 1)
        ands = st.lists(sub, min_size=2, max_size=4).map(lambda l: ['and', [['paren', c] if c[0] == 'or' else c for c in l]])
        ors = st.lists(sub, min_size=2, max_size=4).map(lambda l: ['or', l])
        return st.one_of(atom, ands, ors, sub.map(lambda c: ['paren', c]))
    ast = tree(2)

    @st.composite
    def cases(draw):
        a = draw(ast)
        ats = list(fr.atoms(a))
        cand = {}
        reftags = set()
        for at in ats:
            p = at[1] if at[0] != 'cmp' else at[2]
            for n in p[:-1]:
                reftags.add(n)
            c = cand.setdefault(p[-1], ['ABSENT', 'NONE', 'MARKER'])
            if at[0] == 'cmp':
                c.extend(value_candidates(at[3]))
            else:
                c.extend([['num', 1.0], ['str', 'v']])
        nrows = draw(st.integers(3, 7))
        for t in reftags:
            c = cand.setdefault(t, [])
            c.extend([['ref', 'id%d' % i, None] for i in range(nrows)] * 2 + [['ref', 'nope', None], ['str', 'id0'], ['num', 0.0],
                      ['ref', '2', None], ['ref', '1001', None], ['ref', '0', None], ['uri', 'id1'],
                      ['ref', 'id0', 'Site 0'], ['ref', 'id1', ''], ['ref', 'nope', 'gone'],
                                                                             'ABSENT', 'NONE', 'MARKER'])
        rows = []
        for _ in range(nrows):
            rows.append(dict((t, draw(st.sampled_from(c))) for t, c in sorted(cand.items())))
        return {'ast': a, 'choices': draw(st.lists(st.integers(0, 11), max_size=30)), 'rows': rows,
                'limit': draw(st.sampled_from([0, 0, 0, 1, 2, nrows])),
                'version': draw(st.sampled_from(['3.0', '3.0', '2.0', '2.5', '3.0.0', '1.0', '4.0', '2'])),
                'churn': draw(st.sampled_from([0, 0, 1, 2, 3, 4, 5, 5])), 'siblings': draw(st.booleans())}
    return cases()


def plan(tier, seed, excl):
    q = tier == 'quick'
    t = [('small-scope', {'shard': i, 'of': 16, 'full': not q}) for i in range(16)]
    t += [('random', {'shard': i, 'n': 2500 if q else 20000}) for i in range(16)]
    return t


def run(part, args, env):
    acc = Acc(part)
    excl = frozenset(env['excl'])
    if part == 'small-scope':
        rows_spec = small_scope_rows()
        g = build_grid(rows_spec)
        before = model.grid_to_model(g)
        raw0 = model.raw_snapshot(g)
        n = nt = 0
        for i, (grp, ast) in enumerate(small_scope_filters()):
            if grp % args['of'] != args['shard']:
                continue
            if not args['full'] and i > 600 and (grp // 16) % 4:      # quick: all 1- and 2-atom filters, every 4th 3-atom group
                continue
            case = {'ast': ast, 'choices': [i % 7, (i // 7) % 5] if i % 3 == 0 else [], 'rows': 'small-scope', 'limit': 0 if i % 5 else 3}
            try:
                r = check(dict(case, rows=rows_spec), g, excl)
            except Violation as v:
                v.case['rows'] = 'small-scope'
                acc.violation(v)
                if len(acc.violations) >= acc.MAX_VIOL:
                    break
                continue
            if r[0] == 'excluded':
                acc.excluded[r[1]] += 1
                continue
            n += 1
            nt += (0 < r[1] < r[2]) or fr.count_operands(ast) >= 3 or any(len(a[1] if a[0] != 'cmp' else a[2]) > 1 for a in fr.atoms(ast))
            if n % 211 == 1:
                acc.sample({'filter': r[3], 'selected': r[1], 'of': r[2]})
        d = model.diff(before, model.grid_to_model(g))
        if not d and model.raw_snapshot(g) != raw0:
            d = 'row dicts of the source grid were touched (keys added or values replaced)'
        if d:
            acc.violation(Violation('source-mutated', {'rows': 'small-scope', 'ast': ['has', ['a']], 'choices': [], 'limit': 0}, d))
        acc.bulk(n, nt, labels=('small-scope',))
        acc.exhaustive['filters with <= 3 atoms over 12 atoms x 8 shapes on the all-valuations grid (%d rows)' % len(rows_spec)] = bool(args['full'])
    else:
        def body(case):
            r = check(case, None, excl)
            if r[0] == 'excluded':
                acc.excluded[r[1]] += 1
                return
            ast = case['ast']
            nontriv = (0 < r[1] < r[2]) or fr.count_operands(ast) >= 3 or any(len(a[1] if a[0] != 'cmp' else a[2]) > 1 for a in fr.atoms(ast))
            labels = ['random']
            for a in fr.atoms(ast):
                labels.append('atom:' + (a[0] if a[0] != 'cmp' else 'cmp-' + a[3][0]))
            for k in r[4].used:
                labels.append('spelling:' + k)
            acc.case([r[3], case['rows'], case['limit']], nontriv, labels=labels)
            if acc.want_sample() and len(r[3]) < 120:
                acc.sample({'filter': r[3], 'rows': case['rows'][:3], 'selected': r[1], 'of': r[2]})
        run_hypothesis(acc, body, strategies(excl), args['n'], shard_seed(env['seed'], PROPERTY, args['shard']))
    return acc


def replay(stage, case):
    case = dict(case)
    case.pop('text', None)
    if case.get('rows') == 'small-scope':
        case['rows'] = small_scope_rows()
    check(case)
