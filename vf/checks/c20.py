"""C20 - a Quantity is numerically transparent."""
import itertools
import operator
import sys

if hasattr(sys, 'set_int_max_str_digits'):
    sys.set_int_max_str_digits(0)      # outcomes are compared by repr(); huge ints are legitimate results

from ..core import Acc, Violation, run_hypothesis, shard_seed

PROPERTY = 'C20'
RULE = ('operator x (value, unit) x operand x form {Quantity-op-number, number-op-Quantity, Quantity-op-Quantity, Quantity-op-itself, unary, '
        'conversion, three-argument pow}: outcome(op on Quantity(v,u)) must equal outcome(op on v) where an outcome is '
        '(result type, repr of result) or the exception type (a subclass of the expected class counts as that class). Complete product of a catalogue of ints/floats (0, -0.0, '
        '+-1, 2, 3, 7, -5, 0.5, -1.5, 1e308, 5e-324, +-2**64, inf, -inf, nan, True) plus Hypothesis ints/floats. '
        'Non-trivial = an operand is zero/non-finite/bool, or the raw outcome is an exception, or the form is reflected '
        'or Quantity-Quantity; distinct by (op, form, operands, units).')
ASSUMPTIONS = ['operands are ints, floats and bools as the property says; Fraction/Decimal/complex operands are used for the six '
               'comparisons only: how those types dispatch *arithmetic* to a foreign operand is their own business '
               '(Fraction ** Quantity takes its float path)',
               'shift counts and integer exponents are bounded (|x| <= 512) so results stay representable',
               'reflected three-argument pow is not generated (Python never dispatches it)',
               'pint mode: the same rules are run under hszinc.use_pint(True) for units pint knows (m, km, W, kW, h, min) when pint is importable']
FEATURES = {}
EXHAUSTIVE_CLAIM = True

BINOPS = {
    'add': operator.add, 'sub': operator.sub, 'mul': operator.mul, 'truediv': operator.truediv,
    'floordiv': operator.floordiv, 'mod': operator.mod, 'divmod': divmod, 'pow': pow,
    'lshift': operator.lshift, 'rshift': operator.rshift, 'and': operator.and_, 'xor': operator.xor,
    'or': operator.or_,
}
CMPOPS = {'lt': operator.lt, 'le': operator.le, 'eq': operator.eq, 'ne': operator.ne, 'ge': operator.ge,
          'gt': operator.gt}
UNOPS = {'neg': operator.neg, 'pos': operator.pos, 'abs': abs, 'invert': operator.invert,
         'int': int, 'float': float, 'complex': complex}
INTS = [0, 1, -1, 2, 3, 7, -5, 2 ** 64, -(2 ** 64), True, 2 ** 53 + 1, 10 ** 30, 10 ** 400]
FLOATS = [0.0, -0.0, 0.5, -1.5, 3.0, 1e308, 5e-324, float('inf'), float('-inf'), float('nan')]
CAT = INTS + FLOATS
UNITS = ['m', '', None, u'\xb0C']


def enc(x):
    """JSON-able operand."""
    import fractions
    import decimal
    if isinstance(x, fractions.Fraction):
        return ['frac', str(x)]
    if isinstance(x, decimal.Decimal):
        return ['dec', str(x)]
    if isinstance(x, complex):
        return ['complex', repr(x)]
    if isinstance(x, bool):
        return ['bool', x]
    if isinstance(x, int):
        return ['int', str(x)]
    return ['float', repr(x)]


def dec(e):
    import fractions
    import decimal
    if e[0] == 'frac':
        return fractions.Fraction(e[1])
    if e[0] == 'dec':
        return decimal.Decimal(e[1])
    if e[0] == 'complex':
        return complex(e[1])
    if e[0] == 'bool':
        return bool(e[1])
    if e[0] == 'int':
        return int(e[1])
    return float(e[1])


def safe(op, a, b):
    """Bound the cost: identical rule for raw and Quantity evaluation."""
    if op in ('lshift', 'rshift', 'pow'):
        if isinstance(b, int) and abs(b) > 512:
            return False
        if op == 'pow' and isinstance(a, int) and abs(a) > 2 ** 32 and isinstance(b, int) and abs(b) > 8:
            return False
    return True


def outcome(fn, *args):
    try:
        r = fn(*args)
    except Exception as e:  # noqa - the exception type is the outcome
        return ('raises', type(e).__name__) + tuple(c.__name__ for c in type(e).__mro__[1:])
    if isinstance(r, int) and not isinstance(r, bool) and r.bit_length() > 4096:
        return ('ok', 'int', 'bits=%d hash=%d' % (r.bit_length(), hash(r)))
    return ('ok', type(r).__name__, repr(r))


def nontrivial_operand(x):
    if not isinstance(x, (int, float)):
        return True
    return isinstance(x, bool) or x == 0 or x != x or x in (float('inf'), float('-inf'))


def check(case):
    """case = {'kind': 'bin'|'cmp'|'un'|'pow3', 'op': name, 'form': 'qn'|'nq'|'qq', 'v','u','x','u2','m'}"""
    import hszinc
    if case.get('pint'):
        # the same rules under hszinc.use_pint(): Quantity(v, u) then builds the pint-backed class
        hszinc.use_pint(True)
        try:
            return _check(dict((k, w) for k, w in case.items() if k != 'pint'))
        except Violation as e:
            e.case = case
            raise
        finally:
            hszinc.use_pint(False)
    return _check(case)


def _check(case):
    import hszinc
    Q = hszinc.Quantity
    kind, op = case['kind'], case['op']
    v = dec(case['v'])
    u = case.get('u')
    q = Q(v, u)
    if kind == 'un':
        fn = UNOPS[op]
        want, got = outcome(fn, v), outcome(fn, q)
    elif kind == 'pow3':
        x, m = dec(case['x']), dec(case['m'])
        want, got = outcome(pow, v, x, m), outcome(pow, q, x, m)
    else:
        fn = BINOPS[op] if kind == 'bin' else CMPOPS[op]
        x = dec(case['x'])
        form = case['form']
        if form == 'qn':
            want, got = outcome(fn, v, x), outcome(fn, q, x)
        elif form == 'nq':
            want, got = outcome(fn, x, v), outcome(fn, x, q)
        elif form == 'self':
            # the same Quantity object on both sides (q op q) must behave like v op v
            want, got = outcome(fn, v, v), outcome(fn, q, q)
        else:
            u2 = case.get('u2')
            q2 = Q(x, u2)
            if form == 'qq-pickled':
                import pickle
                q2 = pickle.loads(pickle.dumps(q2))     # an equal Quantity that did not come straight from the constructor
            if kind == 'cmp' and u2 != u:
                want = ('raises', 'TypeError')
            else:
                want = outcome(fn, v, x)
            got = outcome(fn, q, q2)
    if want[0] == 'raises' and got[0] == 'raises' and want[1] in got[1:]:
        got = want      # the same exception class or a subclass of it
    if want != got:
        raise Violation('transparent', case, '%s/%s: on value %r, on Quantity %r' % (kind, op, want, got),
                        tags=(kind, op))
    return want


def enumerate_cases(shard, of):
    i = 0
    for v in CAT:
        for u in UNITS:
            for op in UNOPS:
                i += 1
                if i % of == shard:
                    yield {'kind': 'un', 'op': op, 'v': enc(v), 'u': u}
            for x in CAT:
                for kind, table in (('bin', BINOPS), ('cmp', CMPOPS)):
                    for op in table:
                        if not safe(op, v, x) or not safe(op, x, v):
                            continue
                        for form in ('qn', 'nq') + (('self',) if x is CAT[0] else ()):
                            i += 1
                            if i % of == shard:
                                yield {'kind': kind, 'op': op, 'form': form, 'v': enc(v), 'u': u, 'x': enc(x)}
                        for u2 in UNITS:
                            i += 1
                            if i % of == shard:
                                yield {'kind': kind, 'op': op, 'form': 'qq', 'v': enc(v), 'u': u, 'x': enc(x), 'u2': u2}
                            if kind == 'cmp' and x is CAT[1]:
                                i += 1
                                if i % of == shard:
                                    yield {'kind': kind, 'op': op, 'form': 'qq-pickled', 'v': enc(v), 'u': u, 'x': enc(x), 'u2': u2}
                if u == 'm' and x is CAT[0]:
                    # "plain numbers" of other types, comparisons only (how Fraction/Decimal dispatch *arithmetic* with a
                    # foreign operand is their own business, see ASSUMPTIONS)
                    import fractions
                    import decimal
                    for y in (fractions.Fraction(1, 2), fractions.Fraction(-7, 3), fractions.Fraction(0), decimal.Decimal('1.5'),
                              decimal.Decimal('0'), decimal.Decimal('NaN'), complex(1, 0), complex(0, 2)):
                        for op in CMPOPS:
                            for form in ('qn', 'nq'):
                                i += 1
                                if i % of == shard:
                                    yield {'kind': 'cmp', 'op': op, 'form': form, 'v': enc(v), 'u': u, 'x': enc(y)}
                if u == 'm' and safe('pow', v, x):
                    for m in (1, 2, 7, -3, 0, 2.0):
                        i += 1
                        if i % of == shard:
                            yield {'kind': 'pow3', 'op': 'pow3', 'v': enc(v), 'u': u, 'x': enc(x), 'm': enc(m)}


NEAR = [(1.0, 1.0000000000000002), (0.3, 0.1 + 0.2), (1e16, 1e16 + 2), (1e-9, 1.0000000001e-9), (100.0, 100.00000001),
        (-2.5, -2.5000000000000004), (2 ** 53, 2 ** 53 + 1), (1e-300, 1.0000000000000002e-300), (5e-324, 1e-323),
        (1e308, 1.0000000000000002e308), (0.0, 5e-324), (1, 1.0000000001), (123456789.0, 123456789.00000001), (7, 7.000000000000001)]
PINT_UNITS = ['m', 'km', 'W', 'kW', 'h', 'min']


def near_cases():
    """numbers that differ in the last place or by 1e-10 relative: equality and ordering see the difference on the bare
    values, so they must on Quantities (same unit) and against the bare value"""
    for a, b in NEAR:
        for v, x in ((a, b), (b, a), (a, a)):
            for op in CMPOPS:
                for u in ('m', None):
                    for form in ('qn', 'nq'):
                        yield {'kind': 'cmp', 'op': op, 'form': form, 'v': enc(v), 'u': u, 'x': enc(x)}
                    yield {'kind': 'cmp', 'op': op, 'form': 'qq', 'v': enc(v), 'u': u, 'x': enc(x), 'u2': u}


def pint_available():
    try:
        import pint      # noqa
        return True
    except Exception:      # noqa
        return False


def pint_cases():
    vals = [0, 1, -1, 2, 7, 0.0, 0.5, -1.5, 3.0, 1000.0, 0.001, 60, 3600, float('inf'), float('nan')]
    for v in vals:
        for u in PINT_UNITS:
            for op in UNOPS:
                yield {'kind': 'un', 'op': op, 'v': enc(v), 'u': u, 'pint': True}
            for x in vals:
                for kind, table in (('cmp', CMPOPS), ('bin', BINOPS)):
                    for op in table:
                        if kind == 'bin' and u not in ('m', 'W'):
                            continue
                        for form in ('qn', 'nq'):
                            yield {'kind': kind, 'op': op, 'form': form, 'v': enc(v), 'u': u, 'x': enc(x), 'pint': True}
                        for u2 in PINT_UNITS:
                            if kind == 'bin' and u2 not in ('m', 'km'):
                                continue
                            yield {'kind': kind, 'op': op, 'form': 'qq', 'v': enc(v), 'u': u, 'x': enc(x), 'u2': u2, 'pint': True}
    for c in near_cases():
        if c['u'] is not None:
            yield dict(c, pint=True)


def is_nontrivial(case, want):
    if want[0] == 'raises' or case.get('form') in ('nq', 'qq', 'self', 'qq-pickled'):
        return True
    ops = [dec(case['v'])] + ([dec(case['x'])] if 'x' in case else [])
    return any(nontrivial_operand(o) for o in ops)


def plan(tier, seed, excl):
    t = [('catalogue', {'shard': i, 'of': 16}) for i in range(16)]
    n = 12000 if tier == 'quick' else 100000
    t += [('random', {'shard': i, 'n': n}) for i in range(8)]
    t.append(('near', {}))
    t += [('pint', {'shard': i, 'of': 4}) for i in range(4)]
    return t


def run(part, args, env):
    acc = Acc(part)
    if part == 'catalogue':
        n = nt = 0
        for case in enumerate_cases(args['shard'], args['of']):
            n += 1
            try:
                want = check(case)
            except Violation as v:
                acc.violation(v)
                continue
            nt += is_nontrivial(case, want)
            if n % 5000 == 1:
                acc.sample(case)
            acc.labels[case['kind'] + ':' + case.get('form', '-')] += 1
        acc.bulk(n, nt)
        acc.exhaustive['operator x operand-pair x form x unit catalogue product (shard sum)'] = n
    elif part in ('near', 'pint'):
        if part == 'pint' and not pint_available():
            acc.excluded['pint not installed: pint-mode cases skipped'] += 1
            return acc
        n = nt = 0
        cases = near_cases() if part == 'near' else (c for i, c in enumerate(pint_cases()) if i % args['of'] == args['shard'])
        for case in cases:
            n += 1
            try:
                want = check(case)
            except Violation as v:
                acc.violation(v)
                continue
            nt += 1 if part == 'near' else is_nontrivial(case, want)
            if n % 3000 == 1:
                acc.sample(case)
            acc.labels[part + ':' + case['kind'] + ':' + case.get('form', '-')] += 1
        acc.bulk(n, nt)
        acc.exhaustive['%s cases (shard)' % part] = n
    else:
        from hypothesis import strategies as st
        num = st.one_of(st.integers(-2 ** 70, 2 ** 70), st.integers(-20, 20), st.floats(allow_nan=True, allow_infinity=True),
                        st.sampled_from(CAT))
        unit = st.sampled_from(UNITS) | st.text(min_size=1, max_size=3)
        binc = st.fixed_dictionaries({
            'kind': st.just('bin'), 'op': st.sampled_from(sorted(BINOPS)), 'form': st.sampled_from(['qn', 'nq', 'qq']),
            'v': num.map(enc), 'u': unit, 'x': num.map(enc), 'u2': unit})
        cmpc = st.fixed_dictionaries({
            'kind': st.just('cmp'), 'op': st.sampled_from(sorted(CMPOPS)), 'form': st.sampled_from(['qn', 'nq', 'qq', 'self']),
            'v': num.map(enc), 'u': unit, 'x': num.map(enc), 'u2': unit | st.just(None)})
        unc = st.fixed_dictionaries({'kind': st.just('un'), 'op': st.sampled_from(sorted(UNOPS)), 'v': num.map(enc), 'u': unit})
        p3 = st.fixed_dictionaries({'kind': st.just('pow3'), 'op': st.just('pow3'), 'v': num.map(enc), 'u': unit,
                                    'x': st.integers(-5, 300).map(enc), 'm': st.integers(-50, 50).map(enc)})

        def body(case):
            if 'x' in case and case['kind'] == 'bin':
                if not safe(case['op'], dec(case['v']), dec(case['x'])) or not safe(case['op'], dec(case['x']), dec(case['v'])):
                    return
            if case['kind'] == 'pow3' and abs(dec(case['v'])) > 2 ** 64 and dec(case['x']) > 64:
                return
            want = check(case)
            acc.case(case, is_nontrivial(case, want), labels=('random:' + case['kind'],))
            if acc.want_sample():
                acc.sample(case)
        run_hypothesis(acc, body, st.one_of(binc, binc, cmpc, unc, p3), args['n'],
                       shard_seed(env['seed'], 'c20', args['shard']))
    return acc


def replay(stage, case):
    check(case)
