"""C09 - malformed ZINC raises ZincParseException: never mis-parsed, never a crash."""
import signal

from .. import gen, model, zinc_ref
from ..core import Acc, Violation, run_hypothesis, shard_seed, describe_exc

PROPERTY = 'C09'
RULE = ('(1) arbitrary text (Hypothesis strings over ZINC tokens and arbitrary characters, bracket nesting capped at 3) and '
        '(2) every single-character edit (delete, insert, replace with each edit character, truncate at every offset) and '
        'line-boundary splice of a corpus of small well-formed documents: hszinc.parse(text, ZINC, single=False) must return a '
        'list of Grid or raise ZincParseException (a ValueError) whose (line, col) is (0,0) or lies inside exc.grid_str; '
        'parse_scalar may raise only ValueError subclasses; a watchdog (20 s, then a 90 s second attempt) turns a hang into did-not-terminate; a single expiry is only inconclusive. (3) documents broken '
        'by construction - header dropped / unquoted / empty / capitalised / non-numeric version, closing quote or backquote '
        'of the last literal on a line removed, illegal escape \\q or \\u12G4 or trailing backslash inserted, an opening or '
        'closing bracket of a list/dict/nested grid removed, a column/meta/dict tag renamed to start with an upper-case '
        'letter or digit or to contain "-", a 3.0 document holding NA/list/dict/grid/XStr relabelled ver 2.0 - must raise '
        'ZincParseException, under single=False and single=True, also when the broken grid is the second grid of a document '
        'whose first grid is well-formed. (3b) breaks of the listed classes (unterminated string, illegal escape, raw newline in a string, unbalanced bracket, 3.0 construct under 2.0 - must be rejected) and odd row separators / extra cells (general contract only) in the first, a middle and the last row of grids of 30 to 257 (thorough: 2049) rows; (4) histories of 40 and 150 distinct version labels (documents and scalars, well-formed and malformed, 2.0/3.0 interleaved) must keep that contract. Non-trivial = the text keeps an intact version header (reaches the grammar) or is a class-3 '
        'breaker; distinct by text.')
ASSUMPTIONS = ['input is str (charset errors of bytes input are not this property)', 'bracket nesting <= 3',
               'normal parses of the generated inputs take milliseconds; only a case that exceeds 20 s and then 90 s on a second attempt is reported as non-terminating']
FEATURES = {'zinc.tab-position': 'for text containing a TAB the reported column refers to the tab-expanded text and can lie '
                                 'beyond the end of the line (pyparsing expands tabs before parsing)'}
EXCL = frozenset()
EXCLUDED = {'n': 0}
EXHAUSTIVE_CLAIM = True
EDIT_CHARS_QUICK = ['"', '\\', ',', '\n', ' ', ':', '[', '}', 'N', '1', '`', '<', '\r', '{']
EDIT_CHARS = EDIT_CHARS_QUICK + [']', '>', '(', ')', '@', '-', '.', 'T', 'e', '\x00', u'\xe9', '_', 'Z', '$', '\x0c', u'\x85', u'\u2028', '%']


class Timeout(Exception):
    pass


_FIRED = {'n': 0}


def _alarm(signum, frame):
    _FIRED['n'] += 1
    raise Timeout()


def bounded_nesting(t, maxdepth=3):
    """drop opening brackets that would nest deeper than maxdepth (by construction, not rejection)"""
    out = []
    depth = 0
    i = 0
    while i < len(t):
        c = t[i]
        two = t[i:i + 2]
        if two in ('<<',) or c in '[{':
            if depth >= maxdepth:
                i += 2 if two == '<<' else 1
                continue
            depth += 1
            out.append(two if two == '<<' else c)
            i += 2 if two == '<<' else 1
            continue
        if two == '>>' or c in ']}':
            depth = max(0, depth - 1)
        out.append(c)
        i += 1
    return u''.join(out)


WATCHDOG_S = 20
CONFIRM_S = 90


def _timed(fn, seconds):
    """run fn() under an alarm; returns ('ok', result) | ('exc', exception) | ('timeout', None)"""
    old = signal.signal(signal.SIGALRM, _alarm)
    fired = _FIRED['n']
    signal.alarm(seconds)
    try:
        try:
            res = ('ok', fn())
        finally:
            signal.alarm(0)
            signal.signal(signal.SIGALRM, old)
    except Timeout:
        return ('timeout', None)
    except BaseException as e:  # noqa - classified by the caller
        res = ('exc', e)
    if _FIRED['n'] != fired:
        # the watchdog fired but the code under test swallowed the interruption (hszinc's parse_grid has a bare
        # `except:` that turns anything into a ZincParseException): still a timeout
        return ('timeout', None)
    return res


def _terminating(fn, case):
    """A first expiry of the watchdog is only 'inconclusive'; the case is then repeated with a much longer budget
    (normal parses of these inputs take milliseconds) and only a second expiry is reported: the property demands
    that parsing terminates."""
    global WATCHDOG_S, CONFIRM_S
    r = _timed(fn, WATCHDOG_S)
    if r[0] != 'timeout':
        return r
    r = _timed(fn, CONFIRM_S)
    if r[0] == 'timeout':
        w, c = WATCHDOG_S, CONFIRM_S
        # one confirmed hang is enough to fail the check; do not spend minutes on each further one (shrinking!)
        WATCHDOG_S, CONFIRM_S = 2, 4
        raise Violation('did-not-terminate', case, 'parsing %d characters did not finish within %d s, nor within %d s on a second attempt' % (
            len(case.get('text', case.get('scalar', ''))), w, c))
    return ('inconclusive', None)


def _mode_kw(var):
    from .. import rt
    return rt.mode_kw('zinc', var)


def check_text(text, acc=None, want_reject=False, what=None, broken_class=False):
    """the oracle of parts 1-3; returns 'parsed' | 'rejected' | 'inconclusive'"""
    import hszinc
    from hszinc.zincparser import ZincParseException
    case = {'text': text}
    if what:
        case['breaker'] = what
    kind, val = _terminating(lambda: hszinc.parse(text, single=False, **_mode_kw(len(text))), case)
    if kind == 'inconclusive':
        return 'inconclusive'
    if kind == 'exc' and isinstance(val, ZincParseException):
        e = val
        if not isinstance(e, ValueError):
            raise Violation('not-a-valueerror', case, 'ZincParseException is not a ValueError')
        line, col = e.line, e.col
        if (line, col) != (0, 0) and 'zinc.tab-position' in EXCL and '\t' in text:
            EXCLUDED['n'] += 1      # open finding: position oracle switched off for texts holding a TAB
        elif (line, col) != (0, 0):
            gs = e.grid_str
            if not isinstance(gs, str) or not isinstance(line, int) or not isinstance(col, int):
                raise Violation('position', case, 'line/col/grid_str have types %s/%s/%s' % (
                    type(line).__name__, type(col).__name__, type(gs).__name__))
            lines = gs.split('\n')
            if not (1 <= line <= len(lines)) or not (1 <= col <= len(lines[line - 1]) + 1):
                raise Violation('position', case, 'line %d col %d is outside the text (%d lines, that line has %d chars)' % (
                    line, col, len(lines), len(lines[line - 1]) if 1 <= line <= len(lines) else -1))
        # a structurally broken document (one of the classes the property lists) must not yield a grid through
        # single=True either; for other rejected texts the property does not say what single=True does with the
        # grids after the first, only that nothing but ZincParseException escapes
        k1, v1 = _terminating(lambda: hszinc.parse(text, single=True, **_mode_kw(len(text) + 1)), case)
        if k1 == 'ok' and (want_reject or broken_class):
            raise Violation('rejected-document-yields-grid', case, 'parse(single=False) rejects the document but parse(single=True) returned %s' % (
                type(v1).__name__,))
        if k1 == 'exc' and not isinstance(v1, ZincParseException):
            raise Violation('foreign-exception', case, 'parse(single=True) raised %s' % describe_exc(v1), (type(v1).__name__,))
        if acc is not None:
            acc.label('rejected:' + ('unknown-position' if (line, col) == (0, 0) else 'positioned'))
        return 'rejected'
    if kind == 'exc':
        raise Violation('foreign-exception', case, 'parse raised %s' % describe_exc(val), (type(val).__name__,))
    res = val
    if not isinstance(res, list) or not all(isinstance(g, hszinc.Grid) for g in res):
        raise Violation('result-type', case, 'parse returned %r' % (type(res).__name__,))
    if want_reject:
        raise Violation('broken-document-accepted', case, 'structurally broken document (%s) parsed into %d grid(s): %r' % (
            what, len(res), [model.to_model(g) for g in res][:1]), (what,))
    if acc is not None:
        acc.label('parsed')
    return 'parsed'


def check_scalar_text(text, ver):
    import hszinc
    case = {'scalar': text, 'ver': ver}
    kind, val = _terminating(lambda: hszinc.parse_scalar(text, version=ver, **_mode_kw(len(text))), case)
    if kind == 'inconclusive':
        return 'inconclusive'
    if kind == 'exc':
        if isinstance(val, ValueError):
            return 'rejected'
        raise Violation('scalar-foreign-exception', case, 'parse_scalar raised %s' % describe_exc(val), (type(val).__name__,))
    return 'parsed'


def big_breaker_docs(nrows, ver):
    """(what, text): a well-formed grid of nrows rows, broken at one place - in the first, a middle or the last row (a reader
    that treats long documents differently from short ones has to keep refusing them)"""
    head = 'ver:"%s" dis:"big"' % ver
    rows = ['%d,"s%d",%dkW' % (i, i, i) for i in range(nrows)]

    def doc(rs):
        return '\n'.join([head, 'a,b,c'] + rs + [''])
    for p in sorted(set([0, nrows // 2, nrows - 1])):
        for sep in ('\r', '\x0b', '\x0c', '\x1c', '\x1d', '\x1e', u'\x85', u'\u2028', u'\u2029'):
            if p < nrows - 1:
                yield 'big:odd-row-separator', '\n'.join([head, 'a,b,c'] + rows[:p]) + '\n' + rows[p] + sep + '\n'.join(rows[p + 1:]) + '\n'
        yield 'big:unterminated-string', doc(rows[:p] + ['%d,"s%d,%dkW' % (p, p, p)] + rows[p + 1:])
        yield 'big:extra-cell', doc(rows[:p] + [rows[p] + ',1'] + rows[p + 1:])
        yield 'big:illegal-escape', doc(rows[:p] + ['%d,"s\\q%d",%dkW' % (p, p, p)] + rows[p + 1:])
        if ver == '3.0':
            yield 'big:unbalanced-bracket', doc(rows[:p] + ['%d,"s%d",[%dkW' % (p, p, p)] + rows[p + 1:])
        else:
            yield 'big:3.0-construct-under-2.0', doc(rows[:p] + ['%d,"s%d",[%dkW]' % (p, p, p)] + rows[p + 1:])
        yield 'big:raw-newline-in-string', doc(rows[:p] + ['%d,"s\n%d",%dkW' % (p, p, p)] + rows[p + 1:])


def version_labels(n, order):
    out = []
    for i in range(n):
        a, b = (2, 3, 1, 4)[i % 4], i // 4
        out.append(['%d.%d' % (a, b), '%d.0.%d' % (a, b + 1), '%d.%da' % (a, b), '%d.%d.%d.1' % (a, b % 3, b)][(i // 16) % 4])
    seen = []
    for l in out:
        if l not in seen:
            seen.append(l)
    return seen[::-1] if order else seen


def check_version_history(case, acc=None):
    """Whatever the reader keeps per version label (grammars, nearest-version decisions) must not wear out: after documents
    and scalars under many distinct labels have been read, malformed and well-formed texts under the next label and under
    2.0 / 3.0 are still answered with a grid or ZincParseException / ValueError, never with another exception."""
    labels = version_labels(case['version-history'], case['order'])
    n = 0
    good = ['a,b\n1,"x"\n', 'a\nM\n']
    bad = ['a,b\n1,"x\n', 'a\n1,2\n', 'a b\n1\n', 'a\n1e\n']
    scal = ['1', '"x"', '"x', '2020-13-01', '@r', '`u']
    for i, lab in enumerate(labels + ['2.0', '3.0', '2.0', '3.0']):
        for body in (good[i % 2], bad[i % 4]):
            check_text('ver:"%s"\n%s' % (lab, body), acc)
            n += 1
        for s in (scal[i % 6], scal[(i + 3) % 6]):
            check_scalar_text(s, lab)
            n += 1
        if i % 10 == 9:
            for lab0 in ('2.0', '3.0'):
                check_text('ver:"%s"\n%s' % (lab0, good[0]), acc)
                check_scalar_text('"x', lab0)
                check_scalar_text('5kW', lab0)
                n += 3
    return n


# ---------------------------------------------------------------- corpus

def corpus(n):
    docs = []
    vals3 = [['num', 1.5], ['str', 'a"b'], ['uri', 'http://x/y'], ['ref', 'a.b', 'dis'], ['marker'], ['na'], ['bool', True],
             ['date', 2020, 2, 29], ['time', 12, 30, 0, 0], ['dt', '2020-01-01T00:00:00.000000', 0, 'UTC'],
             ['coord', 1.5, -2.5], ['qty', 5.0, 'kW'], ['list', [['num', 1.0], ['str', 'x']]],
             ['dict', [['a', ['marker']], ['b', ['num', 2.0]]]], ['xstr', 'Foo', 'bar'], ['bin', 'text/plain'],
             ['grid', '3.0', [], [['x', []]], [[['x', ['num', 1.0]]]]], ['remove'], ['num', float('inf')],
             ['list', [['list', [['dict', [['k', ['str', 'deep']]]]]]]]]
    vals2 = [v for v in vals3 if v[0] not in model.V3_ONLY]
    for i in range(n):
        ver = '3.0' if i % 3 else '2.0'
        vals = vals3 if ver == '3.0' else vals2
        a, b, c = vals[i % len(vals)], vals[(i * 7 + 3) % len(vals)], vals[(i * 5 + 1) % len(vals)]
        meta = [['m', a]] if i % 2 else []
        cols = [['a', [['dis', ['str', 'A']]] if i % 4 == 0 else []], ['b', []]]
        rows = [[['a', b], ['b', c]], [['b', a]]] if i % 5 else [[['a', b]]]
        g = ['grid', ver, meta, cols, rows]
        grids = [g] if i % 6 else [g, ['grid', '2.0', [], [['z', []]], [[['z', ['num', 1.0]]]]]]
        txt, _ = zinc_ref.write_document(grids, [i % 3, i % 2, (i * 3) % 4] if i % 2 else [], '\r\n' if i % 11 == 0 else '\n')
        docs.append(txt)
    return docs


def mutants(doc, edit_chars):
    n = len(doc)
    for i in range(n):
        yield doc[:i] + doc[i + 1:]
        yield doc[:i]
        for ch in edit_chars:
            yield doc[:i] + ch + doc[i:]
            if doc[i] != ch:
                yield doc[:i] + ch + doc[i + 1:]


# ---------------------------------------------------------------- breakers (class 3)

def breaker_docs(ver, filler, k):
    """yield (what, text) - each text is malformed by construction.  `filler` is a model value legal under ver
    used for an unrelated cell (adds variety), k selects variants."""
    fv, _ = zinc_ref.write_scalar(filler, ver, [k % 5])
    head = 'ver:"%s" site dis:"D"' % ver

    def doc(header=head, cols='a,b dis:"B",c', row1=None, row2='1,2,"z"'):
        r1 = row1 if row1 is not None else '%s,"mid","end"' % fv
        return '\n'.join([header, cols, r1, row2, ''])
    yield 'header-dropped', '\n'.join(doc().split('\n')[1:])
    for lead in ('\n', '\n\n', '\r\n\r\n', ' \n', '\n \n'):
        # a document starts with its version header: there is no (empty) grid in front of the first one
        yield 'leading-blank-lines', lead + doc()
    yield 'header-unquoted', doc(header='ver:%s site' % ver)
    yield 'header-empty-version', doc(header='ver:"" site')
    yield 'header-capitalised', doc(header='Ver:"%s"' % ver)
    yield 'header-non-numeric-version', doc(header='ver:"abc"')
    yield 'header-missing-colon', doc(header='ver "%s"' % ver)
    for h in ('ver: "%s"', 'ver :"%s"', 'ver:  "%s" site', ' ver:"%s"', 'ver:"%s"site', 'ver="%s"'):
        yield 'header-malformed', doc(header=h % ver)
    yield 'unterminated-string', doc(row1='%s,"mid","end' % fv)
    yield 'unterminated-long-string', doc(row1='%s,"mid","%s' % (fv, 'The quick brown fox jumps over the lazy dog 0123456789 ' * 2))
    yield 'unterminated-string-in-meta', doc(header='ver:"%s" dis:"D' % ver)
    yield 'unterminated-uri', doc(row1='%s,"mid",`http://x' % fv)
    yield 'illegal-escape-q', doc(row1='%s,"mi\\qd","end"' % fv)
    for esc in ('\\/', "\\'", '\\a', '\\0', '\\x41', '\\ ', '\\:', '\\`', '\\u 041', '\\u004'):
        yield 'illegal-string-escape', doc(row1='%s,"mi%szd","end"' % (fv, esc))
    for esc in ('\\q', '\\"', '\\$', '\\ ', '\\u00', '\\x41'):
        yield 'illegal-uri-escape', doc(row1='%s,"mid",`a%szb`' % (fv, esc))
    yield 'illegal-escape-u', doc(row1='%s,"mi\\u12G4d","end"' % fv)
    yield 'trailing-backslash', doc(row1='%s,"mid","end\\"' % fv)
    yield 'illegal-uri-escape', doc(row1='%s,"mid",`a\\qb`' % fv)
    yield 'raw-newline-in-string', doc(row1='%s,"mi\nd","end"' % fv)
    for bad in ('Abc', '9a', 'a-b', '_a', 'aB c:', u'na\xefve', u'col\u0661', u'a\xb5', u't\xe4g_1', 'a.b', 'a$'):
        yield 'illegal-column-name', doc(cols='a,%s,c' % bad)
        yield 'illegal-meta-tag', doc(header='ver:"%s" %s:1' % (ver, bad))
        yield 'illegal-column-meta-tag', doc(cols='a,b %s:"x",c' % bad)
    yield 'too-few-columns-line', '\n'.join([head, '', '1', ''])
    for sep in ('\r', '\x0b', '\x0c', '\x1c', '\x1e', u'\x85', u'\u2028', u'\u2029', ' ', '\t'):
        # only LF / CRLF end a line: with any other separator there is no column line at all
        yield 'lines-not-separated-by-LF', doc().replace('\n', sep)
    if ver == '3.0':
        for good, variants in (('[1,2]', ['[1,2', '1,2]x', '[1,[2]', '[1,2]]']), ('{a:1 b}', ['{a:1 b', 'a:1 b}', '{a:1 {b}', '{a:1 b}}']),
                               ('<<ver:"3.0"\nx\n1\n>>', ['<<ver:"3.0"\nx\n1\n', 'ver:"3.0"\nx\n1\n>>', '<<ver:"3.0"\nx\n1\n>'])):
            for v in variants:
                yield 'unbalanced-bracket', '\n'.join([head, 'a', v, ''])
        for bad in ('Abc', '9a', 'a-b', u't\xe4g', u'x\u0661', 'Foo', '_x'):
            yield 'illegal-dict-tag', doc(row1='{%s:1},"mid","end"' % bad)
            yield 'illegal-dict-tag', doc(row1='{%s},"mid","end"' % bad)
            yield 'illegal-dict-tag', doc(row1='{a %s c:1},"mid","end"' % bad)
        for v3 in ('NA', '[1]', '{a:1}', '<<ver:"2.0"\nx\n1\n>>', 'Foo("x")', '[]', '{}'):
            yield '3.0-construct-under-2.0', '\n'.join(['ver:"2.0"', 'a,b', '%s,1' % v3, ''])
            yield '3.0-construct-under-2.0', '\n'.join(['ver:"2.0" m:%s' % v3, 'a', '1', ''])
        # ... and under the 2.0 label of a grid nested in a 3.0 document (cell, list member)
        for v3 in ('NA', '[1]', '{a:1}', 'Foo("x")', '<<ver:"2.0"\ny\n1\n>>'):
            yield '3.0-construct-under-2.0', '\n'.join([head, 'a,b', '<<ver:"2.0"\nx\n%s\n>>,1' % v3, ''])
            yield '3.0-construct-under-2.0', '\n'.join([head, 'a,b', '1,[<<ver:"2.0"\nx,y\n1,%s\n>>]' % v3, ''])


BOUNDARY_SCALARS = [
    '0001-01-01T00:00:00+10:00 Brisbane', '0001-01-01T00:00:00+14:00 Kiritimati', '9999-12-31T23:59:59-10:00 Honolulu',
    '9999-12-31T23:59:59-12:00 GMT+12', '0001-01-01T00:00:00Z UTC', '0001-01-01T00:00:00+00:01', '9999-12-31T23:59:59.999999Z',
    '0000-01-01', '9999-99-99', '2020-02-30', '2020-13-01T00:00:00Z', '24:00:00', '23:59:60', '12:00:00.1234567890123',
    '2020-01-01T00:00:00+99:99 UTC', '2020-01-01T00:00:00Z Nowhere_Land', '1e999', '-1e999', '1e-999', '9' * 400, '0.' + '9' * 400,
    '1' + '_' * 50 + '0', 'C(91,181)', 'C(1e5,2)', 'C(,)', 'C(-,-)', '@', '@ "x"', 'Bin()', 'Bin(', '""', '``', '"\\u"', '"\\ud800"',
    '"\\udfff\\ud800"', '`\\u12`', 'T' * 50, 'NA' * 30, '[' * 3 + ']' * 3, '{' * 3 + '}' * 3, '<<' * 2 + '>>' * 2, '{a:{b:{c:1}}}',
    '[[[1]]]', '`a\\;b`', '`\\:\\/\\?\\#\\[\\]\\@\\&\\=\\;`', '`\\q`', '`\\u00e9`', '`\\\\`', '`\\``', '"\\/"', '5' + u'\xb5' * 100, '1kW' * 20, '- 1', '--1', '+1', '.5', '5.', '1e', '1e+', 'INFkW', 'NaNm', '-NaN', 'inf', 'nan',
    u'\ufeff1', u'1\u2028', 'hex("zz")', 'b64("!!!")', 'hex("abc")', 'Foo("' + 'x' * 300 + '")', 'x' * 5000,
]


def plan(tier, seed, excl):
    q = tier == 'quick'
    ndocs = 16 if q else 64
    t = [('edits', {'doc': i, 'ndocs': ndocs, 'sub': j, 'nsub': 4}) for i in range(ndocs) for j in range(4)]
    t += [('splices', {'ndocs': ndocs, 'shard': i, 'of': 8}) for i in range(8)]
    t += [('breakers', {'shard': i, 'of': 4}) for i in range(4)]
    t.append(('boundary-scalars', {}))
    t += [('big-breakers', {'n': n, 'ver': v}) for n in ((30, 99, 100, 101, 128, 257) if q else (30, 99, 100, 101, 128, 129, 255, 256, 257, 512, 1000, 1025, 2049)) for v in ('2.0', '3.0')]
    t += [('version-labels', {'n': n, 'order': o}) for n in (40, 150) for o in (0, 1)]
    t += [('random-text', {'shard': i, 'n': 400 if q else 12000}) for i in range(8)]
    t += [('random-scalar', {'shard': i, 'n': 2500 if q else 60000}) for i in range(4)]
    # coverage-guided campaigns (atheris/libFuzzer) with the same oracle inside the target; one starts from an empty corpus
    t += [('atheris', {'shard': i, 'runs': 6000 if q else 150000, 'empty_corpus': i == 0}) for i in range(2 if q else 4)]
    return t


TOKENS = ['`a\\;b`', '\\;', '\\/', '\\#', '0001-01-01T00:00:00+10:00 Brisbane', '9999-12-31T23:59:59-10:00 Honolulu', '0001-01-01', '9999-12-31', 'ver:"3.0"', 'ver:"2.0"', '\n', '\n', ',', ' ', 'a', 'b', 'dis:', '"x"', '"', '`u`', '`', '@r', '@r "d"', 'N', 'M', 'R', 'NA',
          'T', 'F', '1', '-1.5e3', '5kW', 'INF', '-INF', 'NaN', '2020-01-01', '12:00:00', '2020-01-01T00:00:00Z UTC',
          '2020-01-01T00:00:00+10:00 Brisbane', 'C(1,2)', 'Bin(text/plain)', 'Bin("x")', 'Foo("x")', '[', ']', '{', '}', '<<', '>>',
          ':', '\\', '\\u00e9', '\r\n', '\n\n', '_', '.', '-', '(', ')', '$', 'e', 'Z', '0', '9999', '\t', '*', '\x00', u'\xe9', u'\U0001F600']


def run(part, args, env):
    from hypothesis import strategies as st
    global EXCL
    acc = Acc(part)
    tier = env['tier']
    EXCL = frozenset(env['excl'])
    EXCLUDED['n'] = 0
    try:
        return _run(part, args, env, acc, tier)
    finally:
        if EXCLUDED['n']:
            acc.excluded['zinc.tab-position'] += EXCLUDED['n']


def _run(part, args, env, acc, tier):
    from hypothesis import strategies as st
    if part == 'edits':
        docs = corpus(args['ndocs'])
        doc = docs[args['doc']]
        chars = EDIT_CHARS_QUICK if tier == 'quick' else EDIT_CHARS
        n = nt = 0
        seen = set()
        for mi, t in enumerate(mutants(doc, chars)):
            if mi % args['nsub'] != args['sub'] or t in seen:
                continue
            seen.add(t)
            n += 1
            try:
                r = check_text(t, acc)
                if r == 'inconclusive':
                    acc.inconclusive += 1
            except Violation as v:
                acc.violation(v)
                if len(acc.violations) >= acc.MAX_VIOL:
                    break
            nt += t.startswith('ver:"')
        try:
            if check_text(doc, acc) != 'parsed':
                acc.violation(Violation('corpus-document-rejected', {'text': doc}, 'well-formed corpus document rejected'))
        except Violation as v:
            acc.violation(v)
        acc.bulk(n, nt, labels=('single-edit',))
        acc.sample({'doc': doc, 'a-mutant': doc[:len(doc) // 2] + doc[len(doc) // 2 + 1:]})
        acc.exhaustive['every delete/insert/replace (x%d edit characters)/truncate of each of %d corpus documents' % (
            len(chars), args['ndocs'])] = True
    elif part == 'splices':
        docs = corpus(args['ndocs'])
        n = 0
        seen = set()
        for i, a in enumerate(docs):
            if i % args['of'] != args['shard']:
                continue
            la = a.split('\n')
            for j, b in enumerate(docs):
                if i == j or (tier == 'quick' and (i + j) % 3):
                    continue
                lb = b.split('\n')
                for x in range(1, len(la)):
                    for y in range(0, len(lb) - 1):
                        t = '\n'.join(la[:x] + lb[y:])
                        if t in seen:
                            continue
                        seen.add(t)
                        n += 1
                        try:
                            if check_text(t, acc) == 'inconclusive':
                                acc.inconclusive += 1
                        except Violation as v:
                            acc.violation(v)
                if len(acc.violations) >= acc.MAX_VIOL:
                    break
        acc.bulk(n, n, labels=('splice',))
        acc.exhaustive['every line-boundary splice of corpus document pairs'] = tier != 'quick'
    elif part == 'breakers':
        n = 0
        fill = {'2.0': [v for v in gen.catalogue_scalars('2.0') if v[0] not in ('null',) and not (v[0] == 'uri' and any(ord(c) < 32 for c in v[1]))][::37],
                '3.0': [v for v in gen.catalogue_scalars('3.0') if v[0] not in ('null',) and not (v[0] == 'uri' and any(ord(c) < 32 for c in v[1]))][::29]}
        seen = set()
        for ver in ('2.0', '3.0'):
            for k, f in enumerate(fill[ver]):
                if k % args['of'] != args['shard']:
                    continue
                for what, t in breaker_docs(ver, f, k):
                    if t in seen:
                        continue
                    seen.add(t)
                    n += 1
                    acc.label('breaker:' + what)
                    try:
                        if check_text(t, acc, want_reject=True, what=what) == 'inconclusive':
                            acc.inconclusive += 1
                        if what not in ('leading-blank-lines', 'lines-not-separated-by-LF', 'too-few-columns-line'):
                            # the same broken grid as the second grid of a document: if the document is rejected as a
                            # whole, single=True must not hand out the first grid either
                            n += 1
                            t2 = 'ver:"%s"\nid,v\n@a,1\n\n' % ver + t
                            if check_text(t2, acc, what=what + '@second-grid', broken_class=True) == 'inconclusive':
                                acc.inconclusive += 1
                    except Violation as v:
                        acc.violation(v)
                    if n % 1501 == 1:
                        acc.sample({'breaker': what, 'text': t})
        acc.bulk(n, n)
    elif part == 'version-labels':
        case = {'version-history': args['n'], 'order': args['order']}
        try:
            n = check_version_history(case, acc)
        except Violation as v:
            acc.violation(v)
            n = 0
        acc.bulk(n, n, labels=('version-labels',))
        acc.sample(case)
    elif part == 'big-breakers':
        n = 0
        for what, t in big_breaker_docs(args['n'], args['ver']):
            n += 1
            acc.label('breaker:' + what)
            try:
                # an odd row separator or an extra cell is not among the classes the property lists as always rejected:
                # for those only the general contract (a grid or a positioned ZincParseException) is checked
                must = what not in ('big:odd-row-separator', 'big:extra-cell')
                if check_text(t, acc, want_reject=must, what=what if must else None) == 'inconclusive':
                    acc.inconclusive += 1
            except Violation as v:
                acc.violation(v)
        acc.bulk(n, n)
        acc.sample({'breaker': 'big-breakers', 'rows': args['n'], 'ver': args['ver'], 'documents': n})
    elif part == 'boundary-scalars':
        n = 0
        for t in BOUNDARY_SCALARS:
            for ver in ('2.0', '3.0'):
                n += 1
                try:
                    r = check_scalar_text(t, ver)
                    acc.label('boundary-scalar:' + r)
                    # the same token as a cell and as a metadata value of a grid
                    for doc in ('ver:"%s"\na\n%s\n' % (ver, t), 'ver:"%s" m:%s\na\n1\n' % (ver, t)):
                        check_text(doc, acc)
                        n += 1
                except Violation as v:
                    acc.violation(v)
        acc.bulk(n, n)
        acc.sample({'scalar': BOUNDARY_SCALARS[0], 'ver': '3.0'})
    elif part == 'atheris':
        from .. import fuzz
        import os
        from ..core import VERIF_DIR
        work = os.path.join(VERIF_DIR, '.work', 'fuzz-c09-%d-%d' % (os.getpid(), args['shard']))
        res = fuzz.run_campaign('C09', shard_seed(env['seed'], PROPERTY, 'fz', args['shard']) % 100000 + 1, args['runs'],
                                [] if args['empty_corpus'] else corpus(16), TOKENS, work, excl=EXCL)
        if res['violation']:
            v = res['violation']
            acc.violation(Violation(v['stage'], v['case'], v['detail'], tuple(v.get('tags', ()))))
        if res.get('failed'):
            raise RuntimeError(res['note'])
        acc.bulk(res['evaluations'], res['nontrivial'], labels=('atheris',))
        acc.notes.append('atheris shard %d (%s corpus): %s, outcomes %r' % (
            args['shard'], 'empty' if args['empty_corpus'] else 'seeded', res['note'], res['outcomes']))
        acc.sample({'atheris': 'libFuzzer campaign', 'runs': res['evaluations'], 'outcomes': res['outcomes']})
    elif part == 'random-text':
        atoms = st.one_of(st.sampled_from(TOKENS), st.sampled_from(TOKENS), gen.any_char)
        body_ = st.lists(atoms, max_size=40).map(u''.join)
        strat = st.one_of(body_, st.builds(lambda v, b: 'ver:"%s"%s' % (v, b), st.sampled_from(['2.0', '3.0', '3.0', '2.5', '10', 'x']), body_),
                          st.builds(lambda v, b: 'ver:"%s"\na,b\n%s\n' % (v, b), st.sampled_from(['2.0', '3.0']), body_)).map(bounded_nesting)

        def body(t):
            r = check_text(t, acc)
            if r == 'inconclusive':
                acc.inconclusive += 1
            acc.case(t, t.startswith('ver:"'), labels=('random-text',))
            if acc.want_sample():
                acc.sample({'text': t, 'outcome': r})
        run_hypothesis(acc, body, strat, args['n'], shard_seed(env['seed'], PROPERTY, 't', args['shard']))
    else:
        atoms = st.one_of(st.sampled_from(TOKENS), gen.any_char, st.sampled_from(list('0123456789-+.:eETZ_')))
        strat = st.tuples(st.lists(atoms, max_size=12).map(u''.join).map(bounded_nesting), st.sampled_from(['2.0', '3.0']))

        def body(p):
            r = check_scalar_text(p[0], p[1])
            if r == 'inconclusive':
                acc.inconclusive += 1
            acc.case(list(p), True, labels=('random-scalar:' + r,))
            if acc.want_sample():
                acc.sample({'scalar': p[0], 'ver': p[1], 'outcome': r})
        run_hypothesis(acc, body, strat, args['n'], shard_seed(env['seed'], PROPERTY, 's', args['shard']))
    return acc


def replay(stage, case):
    if 'version-history' in case:
        return check_version_history(case)
    if 'scalar' in case:
        check_scalar_text(case['scalar'], case['ver'])
    else:
        check_text(case['text'], want_reject=('breaker' in case and '@second-grid' not in case['breaker']), what=case.get('breaker'),
                   broken_class='breaker' in case)
