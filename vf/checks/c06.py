"""C06 - JSON writer emits well-formed Haystack JSON that denotes the grid."""
import json

from . import c04
from .. import gen, json_ref, model, rt
from .c01 import SIZES_RULE, FO_RULE
from ..core import Acc, Violation, guarded, run_hypothesis, shard_seed

PROPERTY = 'C06'
RULE = ('the grids of C01 are dumped by hszinc in JSON mode and the text alone is judged: strict json.loads (NaN/Infinity '
        'tokens rejected), shape {meta:{ver:<str>,...}, cols:[{name:<str>,...}], rows:[{...}]} with exactly these keys (or an '
        'array of such for a list of grids), every row key a column name, every encoded value null / JSON bool / array / '
        'object / string with a known type prefix whose payload matches that kind\'s lexical form (independent reader '
        'json_ref, shares no code with hszinc), every string prefix agreeing with the model kind, Remove spelled per version, '
        'and the value read back equal to the model (numbers, quantities, coordinates to six decimals). Same for '
        'dump_scalar. Non-trivial and distinct as C01.' + SIZES_RULE + FO_RULE)
ASSUMPTIONS = ['lexical forms as pinned in DESIGN.md Appendix B', 'tolerance abs(a-b) <= 5e-7 + 1e-12|a| on float payloads only']
FEATURES = {}
EXHAUSTIVE_CLAIM = False
PREFIX = {'marker': 'm:', 'na': 'z:', 'num': 'n:', 'qty': 'n:', 'str': 's:', 'uri': 'u:', 'bin': 'b:', 'ref': 'r:',
          'date': 'd:', 'time': 'h:', 'dt': 't:', 'coord': 'c:', 'xstr': 'x:'}


def strict_loads(txt):
    def bad(c):
        raise ValueError('non-standard JSON constant %s' % c)
    return json.loads(txt, parse_constant=bad)


def check_prefix(m, enc, ver, case, path=''):
    k = m[0]
    if k == 'null':
        ok = enc is None
    elif k == 'bool':
        ok = enc is m[1]
    elif k == 'remove':
        ok = enc == ('-:' if ver == '3.0' else 'x:')
    elif k == 'list':
        ok = isinstance(enc, list) and len(enc) == len(m[1])
        if ok:
            for i, (x, e) in enumerate(zip(m[1], enc)):
                check_prefix(x, e, ver, case, '%s[%d]' % (path, i))
    elif k == 'dict':
        ok = isinstance(enc, dict) and sorted(enc) == sorted(kk for kk, _ in m[1])
        if ok:
            for kk, x in m[1]:
                check_prefix(x, enc[kk], ver, case, path + '.' + kk)
    elif k == 'grid':
        ok = isinstance(enc, dict)
        if ok:
            check_grid_shape(m, enc, case, path)
    else:
        ok = isinstance(enc, str) and enc.startswith(PREFIX[k])
    if not ok:
        raise Violation('wrong-encoding', case, '%s: %s value encoded as %r' % (path or '.', k, enc), (k,))


def check_grid_shape(m, o, case, path=''):
    if not isinstance(o, dict) or set(o) != {'meta', 'cols', 'rows'}:
        raise Violation('shape', case, '%s: grid object keys %r' % (path, sorted(o) if isinstance(o, dict) else o))
    if not isinstance(o['meta'], dict) or o['meta'].get('ver') != m[1]:
        raise Violation('shape', case, '%s: meta.ver is %r, grid version %r' % (path, o['meta'].get('ver') if isinstance(o['meta'], dict) else None, m[1]))
    if [k for k in o['meta'] if k != 'ver'] != [k for k, _ in m[2]]:
        raise Violation('shape', case, '%s: meta keys %r' % (path, list(o['meta'])))
    for k, v in m[2]:
        check_prefix(v, o['meta'][k], m[1], case, path + '.meta.' + k)
    if not isinstance(o['cols'], list) or [c.get('name') if isinstance(c, dict) else None for c in o['cols']] != [c[0] for c in m[3]]:
        raise Violation('shape', case, '%s: cols %r' % (path, o['cols']))
    for (name, cm), c in zip(m[3], o['cols']):
        if [k for k in c if k != 'name'] != [k for k, _ in cm] and sorted(k for k in c if k != 'name') != sorted(k for k, _ in cm):
            raise Violation('shape', case, '%s: column %s meta keys %r' % (path, name, list(c)))
        for k, v in cm:
            check_prefix(v, c[k], m[1], case, '%s.cols[%s].%s' % (path, name, k))
    if not isinstance(o['rows'], list) or len(o['rows']) != len(m[4]):
        raise Violation('shape', case, '%s: %d rows for %d model rows' % (path, len(o['rows']) if isinstance(o['rows'], list) else -1, len(m[4])))
    names = set(c[0] for c in m[3])
    for i, (row, r) in enumerate(zip(m[4], o['rows'])):
        if not isinstance(r, dict) or not set(r) <= names:
            raise Violation('shape', case, '%s: row %d keys %r are not all column names' % (path, i, r))
        d = dict((c, v) for c, v in row)
        for c in names:
            check_prefix(d.get(c, ['null']), r.get(c), m[1], case, '%s.rows[%d].%s' % (path, i, c))


def check_doc(case):
    import hszinc
    ms = [model.normalise(m) for m in case['grids']]
    gs = [model.from_model(m) for m in ms]
    txt = rt.dump_doc(case, gs, case['single'], 'json', len(repr(ms)))
    if not isinstance(txt, str):
        raise Violation('dump-type', case, 'dump returned %s' % type(txt).__name__)
    try:
        obj = strict_loads(txt)
    except ValueError as e:
        raise Violation('invalid-json', case, '%s | text=%r' % (e, txt[:300]))
    if case['single']:
        objs = [obj]
    else:
        if not isinstance(obj, list) or len(obj) != len(ms):
            raise Violation('shape', case, 'a list of %d grids was not dumped as an array of %d objects' % (len(ms), len(ms)))
        objs = obj
    for m, o in zip(ms, objs):
        check_grid_shape(m, o, case)
    try:
        back = json_ref.read_document(obj)
    except json_ref.JsonRefError as e:
        raise Violation('not-conformant', case, '%s | text=%r' % (e, txt[:300]), (str(e).split(':')[-1].split('(')[0].strip()[:30],))
    for i, (m, b) in enumerate(zip(ms, back)):
        d = model.diff(m, b, tol=True, path='grid[%d]' % i)
        if d:
            raise Violation('denotes-other-value', case, '%s | text=%r' % (d, txt[:400]), (d.split(':')[1].split()[0],))


def check_scalar(case):
    import hszinc
    m, ver = model.normalise(case['value']), case['ver']
    v = model.from_model(m)
    enc = guarded('dump-raises', case, hszinc.dump_scalar, v, mode=rt._mode('json', len(repr(m))), version=(hszinc.Version(ver) if len(repr(m)) % 3 else ver))
    try:
        txt = json.dumps(enc, allow_nan=False)
    except (ValueError, TypeError) as e:
        raise Violation('invalid-json', case, 'dump_scalar result %r is not JSON-encodable: %s' % (enc, e))
    check_prefix(m, enc, ver, case)
    try:
        back = json_ref.read_value(strict_loads(txt), ver == '3.0')
    except json_ref.JsonRefError as e:
        raise Violation('not-conformant', case, '%s | json=%r' % (e, txt[:300]), (m[0],))
    d = model.diff(m, back, tol=True)
    if d:
        raise Violation('denotes-other-value', case, '%s | json=%r' % (d, txt[:300]), (m[0],))


def check_after_failed_dump(case):
    """A dump that is refused (3.0-only data smuggled into a row of a 2.0 grid, or a value of no Haystack kind) must not
    leave anything behind: once the row is repaired, the same Grid object dumps to well-formed JSON like any other."""
    import hszinc
    m = case['grid']
    g = model.grid_from_model(m)
    bad = object() if case.get('poison') == 'object' else hszinc.NA
    if len(g) == 0:
        g.append({m[3][0][0]: 1.0})
        m = ['grid', m[1], m[2], m[3], [[[m[3][0][0], ['num', 1.0]]]]]
    row = g[0]
    col = m[3][0][0]
    old = row.get(col, None)
    had = col in row
    for attempt in range(2):
        row[col] = bad
        try:
            hszinc.dump(g, mode=hszinc.MODE_JSON)
            if m[1] == '2.0' or case.get('poison') == 'object':
                raise Violation('dump-accepts-bad-value', case, 'a grid holding %r in a cell was dumped' % (bad,))
        except (ValueError, NotImplementedError):
            pass
        if had:
            row[col] = old
        else:
            del row[col]
        txt = guarded('dump-raises-after-failed-dump', case, hszinc.dump, g, mode=hszinc.MODE_JSON)
        obj = strict_loads(txt)
        check_grid_shape(model.normalise(m), obj, case)
        try:
            back = json_ref.read_document(obj)
        except json_ref.JsonRefError as e:
            raise Violation('not-conformant', case, 'after a failed dump: %s | text=%r' % (e, txt[:300]))
        d = model.diff(model.normalise(m), back[0], tol=True)
        if d:
            raise Violation('denotes-other-value', case, 'after a failed dump: %s' % d)


def plan(tier, seed, excl):
    q = tier == 'quick'
    t = [('catalogue-scalars', {'ver': v}) for v in ('2.0', '3.0')]
    t.append(('after-failed-dump', {}))
    t += [('catalogue-grids', {'shard': i, 'of': 2}) for i in range(2)]
    t += [('scalars', {'shard': i, 'n': 6000 if q else 80000}) for i in range(6)]
    t += [('sizes', {'shard': i, 'of': 8, 'tier': tier}) for i in range(8)]
    t += [('fixed-offset', {'order': k}) for k in range(3)]
    t += [('grids', {'shard': i, 'n': 2500 if q else 40000}) for i in range(16)]
    return t


def run(part, args, env):
    from hypothesis import strategies as st
    acc = Acc(part)
    excl = env['excl']
    if part == 'catalogue-scalars':
        for m in gen.catalogue_scalars(args['ver'], excl):
            case = {'kind': 'scalar', 'ver': args['ver'], 'value': m}
            acc.case(case, m[0] != 'null', labels=(m[0] + '@scalar',))
            try:
                check_scalar(case)
            except Violation as v:
                acc.violation(v)
        acc.exhaustive['catalogue of boundary scalars x versions'] = True
    elif part == 'after-failed-dump':
        n = 0
        for i, m in enumerate(gen.catalogue_grids(excl)):
            if i % 9:
                continue
            for poison in ('na', 'object'):
                case = {'kind': 'after-failed-dump', 'grid': m, 'poison': poison}
                n += 1
                try:
                    check_after_failed_dump(case)
                except Violation as v:
                    acc.violation(v)
        acc.bulk(n, n, labels=('after-failed-dump',))
        acc.sample({'kind': 'after-failed-dump', 'grids': n})
    elif part == 'catalogue-grids':
        for i, m in enumerate(gen.catalogue_grids(excl)):
            if i % args['of'] != args['shard']:
                continue
            case = {'kind': 'doc', 'single': i % 3 != 0, 'grids': [m] if i % 3 else [m, m]}
            acc.case(case, rt.doc_nontrivial([m]), labels=rt.labels_for([m]))
            if i % 97 == 0:
                acc.sample(case)
            try:
                check_doc(case)
            except Violation as v:
                acc.violation(v)
        acc.exhaustive['every kind sample x every position x versions'] = True
    elif part == 'fixed-offset':
        rt.fixed_offset_part(acc, 'json', 'ref', args.get('order', 0))
    elif part == 'sizes':
        from .c01 import sizes_part
        sizes_part(acc, args, check_doc)
    elif part == 'scalars':
        strat = st.sampled_from(['2.0', '3.0']).flatmap(
            lambda v: gen.values(v, depth=1, excl=excl).map(lambda m: {'kind': 'scalar', 'ver': v, 'value': m}))

        def body(case):
            m = case['value']
            acc.case(case, m[0] != 'null', labels=(m[0] + '@scalar',))
            if acc.want_sample():
                acc.sample(case)
            check_scalar(case)
        run_hypothesis(acc, body, strat, args['n'], shard_seed(env['seed'], PROPERTY, 's', args['shard']))
    else:
        strat = gen.grid_docs(excl, depth=2).map(lambda d: dict(d, kind='doc'))

        def body(case):
            acc.case(case, rt.doc_nontrivial(case['grids']), labels=rt.labels_for(case['grids']) | {
                'multi' if not case['single'] else 'single'})
            if acc.want_sample() and len(repr(case)) < 1500:
                acc.sample(case)
            check_doc(case)
        run_hypothesis(acc, body, strat, args['n'], shard_seed(env['seed'], PROPERTY, 'g', args['shard']))
    return acc


def replay(stage, case):
    if case['kind'] == 'fixed-offset' and 'upto' in case:
        return rt.check_fixed_offset_seq(case, 'json', 'ref')
    if case['kind'] == 'fixed-offset':
        return rt.check_fixed_offset(case, 'json', 'ref')
    if case['kind'] == 'after-failed-dump':
        return check_after_failed_dump(case)
    if case['kind'] == 'scalar':
        check_scalar(case)
    else:
        check_doc(case)
