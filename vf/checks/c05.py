"""C05 - JSON reader decodes every well-formed Haystack-JSON grid correctly."""
import copy
import json

from .. import gen, json_ref, model, rt
from ..core import Acc, Violation, guarded, run_hypothesis, shard_seed

PROPERTY = 'C05'
RULE = ('a model grid (numbers drawn as literals: sign, digits, fraction, e/E exponent, or raw JSON numbers; date-times with a '
        'mapped zone or zone-less with any whole-minute offset; strings incl. JSON look-alikes such as [x] or "q") is rendered '
        'by an independent Haystack-JSON writer under a spelling plan (n:<literal> with/without unit, n:INF/-INF/NaN, raw '
        'numbers and booleans, Remove as x: or -:, h:hh:mm / hh:mm:ss / 1-6 fraction digits, t: with Z or numeric offset and '
        'with/without zone name, s: prefix or bare string when legal, nested lists/dicts/grids under 3.0, rows present / '
        'absent / null, rows omitting or null-ing columns, position of ver/name among the tags, order of meta/cols/rows and '
        'of row keys), handed to hszinc.parse as text (compact, indented, ensure_ascii on/off), bytes (utf-8/16/32, or raw latin-1/cp1252/shift_jis with the charset argument), dict or '
        'list of dicts (also with equal nested sub-objects aliased to one object) with single True/False; the result must be exactly the denoted grids, the pre-decoded input must be '
        'deep-equal to its copy afterwards and share no mutable object with the result. Non-trivial = at least one '
        'non-plain spelling or a non-text input form; distinct by (models, plan, form).')
ASSUMPTIONS = ['well-formedness is defined by DESIGN.md Appendix B; a bare string is legal iff its second character is not ":"',
               'meta/column tags keep their relative order (only the carrier keys ver/name and the top-level keys move)',
               'dict values with all of meta, cols, rows as keys are not generated (indistinguishable from a nested grid)']
from .c01 import SIZES_RULE  # noqa: E402
RULE = RULE + SIZES_RULE
FEATURES = {}
EXHAUSTIVE_CLAIM = False
FORMS = ['text', 'text-indent', 'text-unicode', 'bytes:utf-8', 'bytes:utf-16', 'bytes:utf-32', 'obj', 'obj-aliased',
         'rawbytes:latin-1', 'rawbytes:cp1252', 'rawbytes:shift_jis']


def alias_equal(o, pool=None):
    pool = {} if pool is None else pool
    if isinstance(o, dict):
        o = dict((k, alias_equal(v, pool)) for k, v in o.items())
    elif isinstance(o, list):
        o = [alias_equal(v, pool) for v in o]
    else:
        return o
    key = json.dumps(o, sort_keys=True)
    return pool.setdefault(key, o)


def mutable_ids(o, acc=None):
    acc = set() if acc is None else acc
    if isinstance(o, (list, dict)):
        acc.add(id(o))
        for x in (o.values() if isinstance(o, dict) else o):
            mutable_ids(x, acc)
    return acc


def result_mutables(g, acc):
    import hszinc
    if isinstance(g, hszinc.Grid):
        for v in g.metadata.values():
            result_mutables(v, acc)
        for c in g.column.values():
            for v in c.values():
                result_mutables(v, acc)
        for r in g:
            acc.add(id(r))
            for v in r.values():
                result_mutables(v, acc)
    elif isinstance(g, list):
        acc.add(id(g))
        for v in g:
            result_mutables(v, acc)
    elif isinstance(g, dict):
        acc.add(id(g))
        for v in g.values():
            result_mutables(v, acc)


def check_doc(case, acc=None):
    import hszinc
    ms = case['grids']
    as_array = case.get('as_array', False)
    obj, plan = json_ref.write_document(ms, case.get('choices', ()), as_array)
    # harness self-check
    mine = json_ref.read_document(json.loads(json.dumps(obj)))
    for m, b in zip(ms, mine):
        d = model.diff(model.normalise(m), b)
        if d:
            raise AssertionError('harness JSON writer/reader disagree: %s' % d)
    form = case.get('form', 'text')
    kw = {}
    if form == 'obj':
        inp = obj
    elif form == 'obj-aliased':
        # a caller may build its input from shared sub-objects: equal nested arrays/objects become one object
        inp = alias_equal(obj)
    else:
        if form == 'text-indent':
            txt = json.dumps(obj, indent=2)
        elif form == 'text-unicode':
            txt = json.dumps(obj, ensure_ascii=False)
        else:
            txt = json.dumps(obj, separators=(',', ':'))
        if form.startswith('rawbytes:'):
            # non-ASCII characters written raw in a legacy charset (falls back to utf-8 when the text is not encodable)
            cs = form.split(':', 1)[1]
            raw = json.dumps(obj, ensure_ascii=False)
            try:
                inp = raw.encode(cs)
                if inp.decode(cs) != raw:
                    raise UnicodeError
            except UnicodeError:
                cs = 'utf-8'
                inp = raw.encode(cs)
            kw['charset'] = cs
        elif form.startswith('bytes:'):
            cs = form.split(':', 1)[1]
            inp = txt.encode(cs)
            kw['charset'] = cs
        else:
            inp = txt
    keep = copy.deepcopy(inp) if form.startswith('obj') else None
    single = case.get('single', not as_array)
    if acc is not None:
        for k in plan.used:
            acc.label('spelling:' + k)
    shown = dict(case, json=json.dumps(obj)[:1500])
    got = guarded('parse-raises', shown, hszinc.parse, inp, single=single, **dict(kw, **rt.mode_kw('json', len(repr(inp)))))
    if form.startswith('obj'):
        if keep != inp:
            raise Violation('input-modified', shown, 'the caller\'s pre-decoded object was modified by parse')
    if single:
        if not isinstance(got, hszinc.Grid):
            raise Violation('parse-type', shown, 'single=True returned %s' % type(got).__name__)
        got, want = [got], ms[:1]
    else:
        if not isinstance(got, list):
            raise Violation('parse-type', shown, 'single=False returned %s' % type(got).__name__)
        want = ms
        if len(got) != len(want):
            raise Violation('grid-count', shown, 'document holds %d grids, parse returned %d' % (len(want), len(got)))
    for i, (m, b) in enumerate(zip(want, got)):
        d = model.diff(model.normalise(m), model.to_model(b), path='grid[%d]' % i)
        if d:
            raise Violation('decoded-other-value', shown, d, (d.split(':')[1].split()[0], form.split(':')[0]))
    if form.startswith('obj'):
        shared = set()
        for g in got:
            result_mutables(g, shared)
        if shared & mutable_ids(inp):
            raise Violation('input-aliased', shown, 'the result shares a mutable list/dict with the caller\'s input object')
    return plan


def check_scalar(case, acc=None):
    import hszinc
    m, ver = case['value'], case['ver']
    val, plan = json_ref.write_value(m, ver, case.get('choices', ()))
    if acc is not None:
        for k in plan.used:
            acc.label('spelling:' + k)
    keep = copy.deepcopy(val)
    # parse_scalar(mode=JSON) takes JSON text for strings/arrays/objects and decoded values otherwise
    arg = json.dumps(val) if isinstance(val, (str, list, dict)) else val
    got = guarded('parse-raises', case, hszinc.parse_scalar, arg, version=ver, **rt.mode_kw('json', len(repr(arg))))
    if keep != val and not (isinstance(val, float) and val != val):
        raise Violation('input-modified', case, 'parse_scalar modified its input')
    d = model.diff(model.normalise(m), model.to_model(got))
    if d:
        raise Violation('decoded-other-value', case, '%s | json=%r' % (d, val), (m[0],))
    return plan


def table_values(ver):
    from .c03 import catalogue_for_table
    out = []
    for m in catalogue_for_table(ver):
        if len(m) > 2 and m[0] == 'num' and '_' in str(m[2]):
            continue
        if len(m) > 3 and m[0] == 'qty' and '_' in str(m[3]):
            continue
        out.append(m)
    out += [['num', 5, 'raw'], ['num', -2.5, 'raw'], ['num', 1e22, 'raw'], ['num', 0, 'raw'], ['num', 12.0, '12'],
            ['num', 1200.0, '1.2E+3']] + [['str', s] for s in gen.JSONLIKE]
    if ver == '3.0':
        inner = ['grid', '3.0', [['im', ['marker']]], [['x', []]], [[['x', ['num', 1.0]]], [['x', ['str', 'v']]]]]
        out += [inner, ['list', [inner, inner]], ['dict', [['g', inner], ['h', inner]]]]
    return out


def plan(tier, seed, excl):
    q = tier == 'quick'
    t = [('table', {'ver': v, 'shard': i, 'of': 2}) for v in ('2.0', '3.0') for i in range(2)]
    t += [('scalars', {'shard': i, 'n': 5000 if q else 60000}) for i in range(4)]
    t += [('docs', {'shard': i, 'n': 1500 if q else 20000}) for i in range(16)]
    t += [('sizes', {'shard': i, 'of': 8, 'tier': tier}) for i in range(8)]
    return t


def run(part, args, env):
    from hypothesis import strategies as st
    acc = Acc(part)
    excl = frozenset(env['excl'])
    if part == 'table':
        ver = args['ver']
        n = 0
        for i, m in enumerate(table_values(ver)):
            if i % args['of'] != args['shard']:
                continue
            for k in range(6):
                for shape in ('scalar', 'cell', 'meta', 'list', 'dict'):
                    if shape in ('list', 'dict') and ver != '3.0':
                        continue
                    if shape == 'scalar':
                        case = {'kind': 'scalar', 'ver': ver, 'value': m, 'choices': [k]}
                        fn = check_scalar
                    else:
                        if shape == 'cell':
                            if m[0] == 'null':
                                continue
                            g = ['grid', ver, [], [['a', []], ['b', []]], [[['a', m]], [['b', m]], [['a', m], ['b', m]]]]
                        elif shape == 'meta':
                            g = ['grid', ver, [['m', m]], [['a', [['cm', m]]]], []]
                        elif shape == 'list':
                            g = ['grid', ver, [], [['a', []]], [[['a', ['list', [m, m]]]]]]
                        else:
                            g = ['grid', ver, [], [['a', []]], [[['a', ['dict', [['k', m], ['j', ['marker']]]]]]]]
                        case = {'kind': 'doc', 'grids': [g], 'choices': [k, (k + 1) % 6, (k * 5) % 6], 'as_array': k % 2 == 1,
                                'form': FORMS[(k + i) % len(FORMS)] if m[0] not in ('grid', 'list', 'dict') else ('obj-aliased' if k % 2 else 'obj'),
                                'single': k % 3 != 1}
                        fn = check_doc
                    n += 1
                    try:
                        fn(case, acc)
                        acc.case(case, k != 0, labels=(m[0] + '@' + shape,))
                    except Violation as v:
                        acc.violation(v)
                    if n % 3001 == 1:
                        acc.sample(case)
        if args['shard'] == 0:
            # columns (and tags) named like the carrier fields of the JSON encoding itself
            g = ['grid', ver, [['meta', ['marker']], ['cols', ['num', 1.0]], ['rows', ['str', 'r']]],
                 [['meta', [['rows', ['str', 'x']], ['cols', ['marker']]]], ['cols', []], ['rows', []], ['name', []], ['ver', []]],
                 [[['meta', ['num', 1.0]], ['cols', ['str', 'c']], ['rows', ['marker']], ['name', ['str', 'n']], ['ver', ['str', 'v']]],
                  [['rows', ['num', 2.0]], ['meta', ['str', 'm']], ['cols', ['num', 3.0]]], [['rows', ['num', 2.0]]]]]
            for k in range(6):
                for form in FORMS:
                    case = {'kind': 'doc', 'grids': [g], 'choices': [k], 'as_array': k % 2 == 1, 'form': form, 'single': k % 3 != 1}
                    try:
                        check_doc(case, acc)
                        acc.case(case, True, labels=('carrier-names',))
                    except Violation as v:
                        acc.violation(v)
        acc.exhaustive['catalogue value x uniform spelling plan x shape table'] = True
    elif part == 'sizes':
        from .c01 import sizes_part

        def one(case):
            n = case['sized'][1]
            c = dict(case, choices=[n % 6] if n % 2 else [], as_array=not case['single'], form=FORMS[n % len(FORMS)])
            check_doc(c, acc)
        sizes_part(acc, args, one)
    elif part == 'scalars':
        strat = st.sampled_from(['2.0', '3.0']).flatmap(lambda v: st.builds(
            lambda m, c: {'kind': 'scalar', 'ver': v, 'value': m, 'choices': c},
            gen._spelled_values(v, 1, excl, False, 'json'), gen.spelling_plans(30)))

        def body(case):
            p = check_scalar(case, acc)
            acc.case(case, bool(p.used) or len(case['value']) > 2 and case['value'][0] in ('num', 'qty'),
                     labels=(case['value'][0] + '@scalar',))
            if acc.want_sample():
                acc.sample(case)
        run_hypothesis(acc, body, strat, args['n'], shard_seed(env['seed'], PROPERTY, 's', args['shard']))
    else:
        g = gen.spelled_grids(None, 2, excl, False, 3, 3, 2, 'json')
        strat = st.builds(
            lambda gs, c, arr, single, form: {'kind': 'doc', 'grids': gs if arr else gs[:1], 'choices': c, 'as_array': arr,
                                              'single': single, 'form': form},
            st.lists(g, min_size=1, max_size=3), gen.spelling_plans(), st.booleans(), st.booleans(), st.sampled_from(FORMS))

        def body(case):
            p = check_doc(case, acc)
            acc.case(case, bool(p.used) or case['form'] != 'text',
                     labels=['docs', 'array:%s' % case['as_array'], 'form:' + case['form'], 'single:%s' % case['single']])
            if acc.want_sample() and len(repr(case)) < 1200:
                acc.sample(case)
        run_hypothesis(acc, body, strat, args['n'], shard_seed(env['seed'], PROPERTY, 'd', args['shard']))
    return acc


def replay(stage, case):
    case = dict(case)
    case.pop('json', None)
    if case['kind'] == 'scalar':
        check_scalar(case)
    else:
        check_doc(case)
