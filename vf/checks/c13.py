"""C13 - a filter's result is independent of other filters, earlier or concurrent."""
import gc
import itertools

from .. import sched
from ..core import Acc, Violation, run_hypothesis, shard_seed, describe_exc, lru_cached_functions, clear_lru_caches

PROPERTY = 'C13'
RULE = ('(a) schedules: 2-3 worker threads each compile and evaluate a distinct, never-before-seen filter on a shared grid '
        'while a harness-owned scheduler (sys.settrace line events inside filter_function, _filter_function and '
        '_FnWrapper.__init__/get/__del__ of hszinc/grid_filter.py and Grid.filter / Grid.reindex of hszinc/grid.py) decides which thread runs each source line; a schedule '
        'is the list of thread ids in resumption order. Enumerated: quick - yield points in the compile path and in Grid.reindex (~17 per '
        'thread), every 2-thread schedule with <= 4 (5,238) and every 3-thread schedule with <= 3 changes of the running thread; '
        'thorough - additionally every line of Grid.filter (~37 yield points per thread), every 2-thread schedule with <= 4 '
        'changes (50,025); plus Hypothesis-drawn schedules. Oracle: each thread gets exactly the rows its own filter denotes (reference evaluator), no exception, '
        'and a sequential re-evaluation afterwards still agrees. (b) histories around the compiled-filter cache: a '
        'Hypothesis-drawn sequence over a pool of distinct filters of evaluate-new / re-evaluate-cached / re-evaluate-evicted / '
        'call a function object obtained earlier / gc.collect, against the function re-wrapped with lru_cache(maxsize=8) '
        '(same body) and deterministic runs against the real capacity of 500 with 1,700 distinct filters (one of them kept hot); after every '
        'step rows == reference. Non-trivial = (a) the schedule preempts a thread inside the compile path, (b) the '
        'history crossed the cache capacity; distinct by schedule / history. Histories also contain refused filters (parse errors, and-chains of 250 operands whose generated code does not compile, unknown zones, 20 kB unterminated strings) between the compilations.')
ASSUMPTIONS = ['interleavings are at source-line granularity inside hszinc\'s Python code; C code (lru_cache, dict operations) '
               'is atomic under the GIL, as in production CPython',
               'the small-capacity runs replace the one lru_cache-wrapped function of hszinc.grid_filter (found by shape: '
               'cache_clear + __wrapped__) in the harness process by lru_cache(maxsize=8) of the same undecorated function; '
               'if there is no such function the histories run against the cache as it is',
               'a worker whose OS thread sleeps without using CPU while another worker is paused is blocked on a lock the '
               'paused worker holds: it is left in flight and another worker is resumed']
FEATURES = {'filter.name-race': 'two threads compiling different filters at the same time can get the same generated function '
                                'name, so one filter evaluates the other\'s code'}
EXHAUSTIVE_CLAIM = True
COMPILE_PATH = ('filter_function', '_filter_function', '__init__', 'get', '__del__')
WHERE_QUICK = {'hszinc/grid_filter.py': COMPILE_PATH, 'hszinc/grid.py': ('reindex',)}
WHERE_FULL = {'hszinc/grid_filter.py': COMPILE_PATH, 'hszinc/grid.py': ('reindex', 'filter')}   # + every line of Grid.filter
WHERE = WHERE_QUICK
_COUNTER = itertools.count()
SCHED_ROWS = 4


def make_row(i, nrows, bump=0):
    import datetime
    import hszinc
    row = {'id': 'id%d' % i, 'n': float((i + bump) % 6), 'f': (i + bump) % 3 == 0,
           'r': hszinc.Ref('id%d' % ((i + 1 + bump) % nrows)),
           'd': datetime.date(2020, 1, 1 + (i + bump) % 5), 'q': hszinc.Quantity(float((i + bump) % 4), 'kW'),
           't': datetime.datetime(2020, 1, 1, (i + bump) % 12, 0, 0, tzinfo=datetime.timezone.utc)}
    if i % 2:
        row['k'] = hszinc.MARKER
    if i == 5:
        row['t'] = datetime.datetime(2020, 1, 1, 3, 0, 0)      # a naive date-time: not comparable with the literals, hence false
    return row


def shared_grid(nrows=12):
    import hszinc
    g = hszinc.Grid(version='3.0')
    for c in ('id', 'n', 'k', 'f', 'r', 'd', 'q', 't'):
        g.column[c] = {}
    for i in range(nrows):
        g.append(make_row(i, nrows))
    return g


def fresh_filters(n, salt, nrows=12):
    """n (text, predicate) pairs with texts never used before in this process.  Kinds: number literal, ordering + marker,
    negation, a->b path through the id index of the grid, bool literal (Python-equal to number literals of other filters),
    date / quantity / date-time / Ref literals, filters that differ only in the kind of a literal (true / 1 / 1kW), and pairs made of the same tokens but grouped differently
    ('(k or n == v) and n != w ...' vs 'k or n == v and n != w ...': different meaning, same print-out)."""
    import datetime
    out = []
    i = 0

    def target(rows, row, tag):
        r = row.get('r')
        for x in rows:
            if r is not None and x.get('id') == r.name:
                return x.get(tag)
        return None
    while len(out) < n:
        u = next(_COUNTER)
        v = (salt + i) % 6
        kind = (salt + i) % 12
        i += 1
        z = 'zz%d_%d' % (salt, u)
        if kind == 0:
            out.append(('n == %d and not %s' % (v, z), lambda rows, r, v=v: r['n'] == v))
        elif kind == 1:
            out.append(('n > %d and k and not %s' % (v, z), lambda rows, r, v=v: r['n'] > v and 'k' in r))
        elif kind == 2:
            out.append(('not k and n != %d and not %s' % (v, z), lambda rows, r, v=v: 'k' not in r and r['n'] != v))
        elif kind == 3:
            out.append(('r->n == %d and not %s' % (v, z), lambda rows, r, v=v: target(rows, r, 'n') == v))
        elif kind == 4:
            out.append(('f == true and n != %d and not %s' % (v, z), lambda rows, r, v=v: r['f'] is True and r['n'] != v))
        elif kind == 5:
            d = datetime.date(2020, 1, 1 + v % 5)
            out.append(('d == %s and not %s' % (d.isoformat(), z), lambda rows, r, d=d: r['d'] == d))
        elif kind == 6:
            out.append(('q > %dkW and not %s' % (v % 4, z), lambda rows, r, v=v: r['q'].value > v % 4))
        elif kind == 7:
            lim = datetime.datetime(2020, 1, 1, 2 + v, 0, 0, tzinfo=datetime.timezone.utc)
            out.append(('t < 2020-01-01T%02d:00:00Z UTC and not %s' % (2 + v, z),
                        lambda rows, r, lim=lim: r['t'].tzinfo is not None and r['t'] < lim))
        elif kind == 8:
            out.append(('r == @id%d and not %s' % (v % nrows, z), lambda rows, r, v=v: r['r'].name == 'id%d' % (v % nrows)))
        elif kind == 11:
            # filters that differ in nothing but the *kind* of a literal whose values Python calls equal (true / 1, 1 / 1kW,
            # false / 0): a bool cell never equals a number, a number cell never equals a quantity or a bool
            which = (salt + u) % 3
            if which == 0:
                out.append(('f == true and n != %d and not %s' % (v, z), lambda rows, r, v=v: r['f'] is True and r['n'] != v))
                out.append(('f == 1 and n != %d and not %s' % (v, z), lambda rows, r: False))
            elif which == 1:
                out.append(('n == 1 and not %s' % z, lambda rows, r: r['n'] == 1))
                out.append(('n == true and not %s' % z, lambda rows, r: False))
                out.append(('n == 1kW and not %s' % z, lambda rows, r: False))
            else:
                out.append(('f == 0 and not %s' % z, lambda rows, r: False))
                out.append(('f == false and not %s' % z, lambda rows, r: r['f'] is False))
                out.append(('n == 0 and not %s' % z, lambda rows, r: r['n'] == 0))
        elif kind == 10:
            # two filters that differ in nothing but the value of a literal
            v2 = (v + 1) % 6
            out.append(('n == %d and k and not %s' % (v, z), lambda rows, r, v=v: r['n'] == v and 'k' in r))
            out.append(('n == %d and k and not %s' % (v2, z), lambda rows, r, v=v2: r['n'] == v and 'k' in r))
        else:
            w = (v + 1) % 6 if (v + 1) % 2 else (v + 2) % 6     # an odd n value: rows with k and n == w exist
            out.append(('(k or n == %d) and n != %d and not %s' % (v, w, z),
                        lambda rows, r, v=v, w=w: ('k' in r or r['n'] == v) and r['n'] != w))
            out.append(('k or n == %d and n != %d and not %s' % (v, w, z),
                        lambda rows, r, v=v, w=w: 'k' in r or (r['n'] == v and r['n'] != w)))
    return out[:n]


def expected(pred, g):
    rows = list(g)
    return [r['id'] for r in rows if pred(rows, r)]


def run_schedule(nthreads, schedule, salt):
    """returns (Run, filters); raises Violation"""
    g = shared_grid(SCHED_ROWS)
    filters = fresh_filters(nthreads, salt, SCHED_ROWS)
    case = {'kind': 'schedule', 'threads': nthreads, 'schedule': list(schedule), 'salt': salt}

    def worker(text):
        def fn():
            return [r['id'] for r in g.filter(text)]
        return fn
    r = sched.Run(nthreads, schedule, WHERE)
    try:
        r.run([worker(t) for t, _ in filters])
    except sched.SchedulerDeadlock as e:
        raise Violation('threads-never-finish', case, 'no thread is paused by the scheduler and none makes progress: %s' % e)
    case['resumed'] = r.trace
    filters = [(text, expected(pred, g)) for text, pred in filters]
    for i, (text, want) in enumerate(filters):
        if r.errors[i] is not None:
            raise Violation('thread-raised', case, 'thread %d evaluating %r raised %s' % (i, text, describe_exc(r.errors[i])),
                            (type(r.errors[i]).__name__,))
        if r.results[i] != want:
            others = [j for j, (_, w) in enumerate(filters) if j != i and w == r.results[i]]
            raise Violation('wrong-rows-under-concurrency', case,
                            'thread %d evaluating %r got %r, expected %r%s' % (
                                i, text, r.results[i], want, (' (the rows of thread %d\'s filter)' % others[0]) if others else ''))
    for i, (text, want) in enumerate(filters):
        try:
            again = [x['id'] for x in g.filter(text)]
        except Exception as e:  # noqa
            raise Violation('later-evaluation-raised', case, 're-evaluating %r afterwards raised %s' % (text, describe_exc(e)))
        if again != want:
            raise Violation('cached-filter-corrupted', case, 're-evaluating %r afterwards gives %r, expected %r' % (text, again, want))
    return r


def measure(nthreads, salt):
    """segments needed by each thread when run one after the other"""
    r = run_schedule(nthreads, [], salt)
    return [y + 1 for y in r.yields]


# ---------------------------------------------------------------- histories

BAD_FILTERS = ['x ==', 'a and', '(a', 'a == "unterminated', 'a b', ' and '.join('t%d' % i for i in range(250)),
               ' or '.join('n == %d' % i for i in range(400)), 'n == 2020-01-01T00:00:00+00:00 Nowhere', 'n == hex("zz")', 'a->',
               'not ' * 3 + 'a', ' and '.join('(t%d or u%d)' % (i, i) for i in range(120)), 'n < "' + 'x' * 20000, '(' * 60 + 'a' + ')' * 59]


def history_check(case):
    """case = {'kind': 'history', 'capacity': 8|500, 'pool': n, 'ops': [[op, i]...]}"""
    import hszinc.grid_filter as gf
    try:
        from functools import lru_cache
    except ImportError:  # pragma: no cover
        from backports.functools_lru_cache import lru_cache
    g = shared_grid()
    cached = lru_cached_functions(gf)
    cap = case['capacity']
    replaced = None
    if cap < 100 and len(cached) == 1:
        replaced = cached[0]
        setattr(gf, replaced[0], lru_cache(maxsize=cap)(replaced[1].__wrapped__))
    else:
        # capacity 500 stands for "the cache as it is"; so does a small capacity when there is no single
        # lru_cache-wrapped compile function to re-wrap
        clear_lru_caches(gf)
        cap = getattr(gf, 'FILTER_CACHE_LRU_SIZE', None) or 500
    get_function = getattr(gf, 'filter_function', None)
    import sys
    hook = sys.unraisablehook
    sys.unraisablehook = lambda *a: None     # (the library's __del__ of a half-built wrapper complains on stderr)
    try:
        pool = fresh_filters(case['pool'], case.get('salt', 0))
        held = {}
        seen = []
        import hszinc
        nrows = len(g)
        bumps = [0] * nrows
        retarget = [None]
        for step, (op, i) in enumerate(case['ops']):
            if op == 'mutate':
                # replace a row of the shared grid (same id, other values and another reference target)
                j = i % nrows
                bumps[j] += 1
                g[j] = make_row(j, nrows, bumps[j])
                for k in range(nrows):
                    if retarget[0] is not None and k != j:
                        pass
                if retarget[0] is not None:
                    row = dict(g[j])
                    row['r'] = hszinc.Ref('id%d' % retarget[0])
                    g[j] = row
                continue
            if op == 'retarget':
                # every row now references the same target row: consecutive a->b look-ups resolve the same Ref
                retarget[0] = i % nrows
                for k in range(nrows):
                    row = dict(g[k])
                    row['r'] = hszinc.Ref('id%d' % retarget[0])
                    g[k] = row
                continue
            if op == 'bad':
                # a filter that is refused - at parse time, or only when the generated code is compiled or run; whatever
                # it raises is swallowed here (C11 / C12 judge that), what matters is what it leaves behind
                try:
                    g.filter(BAD_FILTERS[i % len(BAD_FILTERS)])
                except BaseException as e:  # noqa
                    if isinstance(e, (KeyboardInterrupt, SystemExit)):
                        raise
                continue
            i = i % len(pool)
            text, pred = pool[i]
            want = expected(pred, g)
            try:
                if op == 'eval':
                    got = [r['id'] for r in g.filter(text)]
                    if i not in seen:
                        seen.append(i)
                elif op == 'hold':
                    if get_function is None:
                        continue
                    held[i] = get_function(text)
                    got = want
                elif op == 'call_old':
                    if i not in held:
                        continue
                    fn = held[i]
                    got = [r['id'] for r in g if fn(g, r)]
                elif op == 'gc':
                    gc.collect()
                    continue
                else:
                    raise ValueError(op)
            except Exception as e:  # noqa
                raise Violation('history-raised', dict(case, step=step), 'step %d (%s filter %d %r) raised %s' % (
                    step, op, i, text, describe_exc(e)), (op, type(e).__name__))
            if got != want:
                raise Violation('history-wrong-rows', dict(case, step=step), 'step %d (%s filter %d %r): got %r expected %r' % (
                    step, op, i, text, got, want), (op,))
        return len(seen) > cap
    finally:
        sys.unraisablehook = hook
        if replaced is not None:
            setattr(gf, replaced[0], replaced[1])
        clear_lru_caches(gf)


def plan(tier, seed, excl):
    q = tier == 'quick'
    t = [('sched2', {'shard': i, 'of': 16, 'switches': 4 if q else 3}) for i in range(16)]
    t += [('sched3', {'shard': i, 'of': 4, 'switches': 3}) for i in range(4)]
    t += [('sched-random', {'shard': i, 'n': 300 if q else 6000}) for i in range(8 if q else 12)]
    t += [('history-small', {'shard': i, 'n': 200 if q else 2500}) for i in range(8)]
    t += [('history-real', {'variant': i}) for i in range(2 if q else 6)]
    t.append(('history-targets', {}))
    t.append(('history-after-bad', {}))
    return t


def run(part, args, env):
    global WHERE
    acc = Acc(part)
    WHERE = WHERE_QUICK if (env['tier'] == 'quick' or part == 'sched3') else WHERE_FULL
    if part in ('sched2', 'sched3'):
        n = 2 if part == 'sched2' else 3
        segs = measure(n, 0)
        scheds = sched.bounded_schedules(segs, args['switches'])
        cnt = nt = 0
        for i, s in enumerate(scheds):
            if i % args['of'] != args['shard']:
                continue
            try:
                r = run_schedule(n, s, i % 18)
            except Violation as v:
                acc.violation(v)
                if len(acc.violations) >= acc.MAX_VIOL:
                    break
                continue
            cnt += 1
            nt += sched.preemptions(r.trace) > n - 1
            if cnt % 97 == 1:
                acc.sample({'threads': n, 'schedule': s, 'yield_points_per_thread': [x - 1 for x in segs]})
        acc.bulk(cnt, nt, labels=(part,))
        acc.exhaustive['%d-thread schedules with <= %d switches (%d line-level yield points per thread: %d schedules)' % (
            n, args['switches'], segs[0] - 1, len(scheds))] = True
    elif part == 'sched-random':
        from hypothesis import strategies as st
        strat = st.tuples(st.sampled_from([2, 3, 3]), st.lists(st.integers(0, 2), max_size=120), st.integers(0, 17))

        def body(t):
            n, s, salt = t
            s = [x % n for x in s]
            r = run_schedule(n, s, salt)
            acc.case({'threads': n, 'resumed': r.trace}, sched.preemptions(r.trace) > n - 1, labels=('sched-random:%d' % n,))
            if acc.want_sample():
                acc.sample({'threads': n, 'schedule': s, 'resumed': r.trace})
        run_hypothesis(acc, body, strat, args['n'], shard_seed(env['seed'], PROPERTY, 'sr', args['shard']))
    elif part == 'history-small':
        from hypothesis import strategies as st
        op = st.one_of(st.tuples(st.just('eval'), st.integers(0, 29)), st.tuples(st.just('eval'), st.integers(0, 29)),
                       st.tuples(st.just('eval'), st.integers(0, 29)), st.tuples(st.just('eval'), st.integers(0, 11)),
                       st.tuples(st.just('hold'), st.integers(0, 29)), st.tuples(st.just('call_old'), st.integers(0, 29)),
                       st.tuples(st.just('gc'), st.just(0)), st.tuples(st.just('mutate'), st.integers(0, 11)), st.tuples(st.just('retarget'), st.integers(0, 11)),
                       st.tuples(st.just('bad'), st.integers(0, len(BAD_FILTERS) - 1)))
        strat = st.lists(op, min_size=25, max_size=80).map(lambda ops: {'kind': 'history', 'capacity': 8, 'pool': 30,
                                                                       'ops': [list(o) for o in ops]})

        def body(case):
            crossed = history_check(case)
            acc.case(case, bool(crossed), labels=('history-small', 'crossed-capacity:%s' % bool(crossed)))
            if acc.want_sample() and len(case['ops']) < 25:
                acc.sample(case)
        run_hypothesis(acc, body, strat, args['n'], shard_seed(env['seed'], PROPERTY, 'h', args['shard']))
    elif part == 'history-after-bad':
        # a refused filter (parse error, or generated code that does not compile) between compilations: the filters
        # compiled before and after it keep answering for themselves
        n = 0
        for k in range(len(BAD_FILTERS)):
            for reps in (1, 2, 3):
                ops = [['eval', j] for j in range(6)] + [['bad', k]] * reps + [['eval', 6], ['eval', 7], ['eval', 6], ['eval', 7]] + \
                      [['eval', j] for j in range(8)] + [['bad', k], ['eval', 8], ['bad', k], ['eval', 9], ['eval', 8], ['eval', 9]] + \
                      [['hold', 10], ['bad', k], ['eval', 11], ['call_old', 10], ['eval', 11], ['eval', 10]] + [['eval', j] for j in range(12)]
                case = {'kind': 'history', 'capacity': 500, 'pool': 40, 'salt': k, 'ops': ops}
                n += 1
                try:
                    history_check(case)
                except Violation as v:
                    acc.violation(v)
        acc.bulk(n, n, labels=('history-after-bad',))
        acc.sample({'kind': 'history', 'ops': [['eval', 0], ['bad', 5], ['eval', 6], ['eval', 7], ['eval', 6]]})
    elif part == 'history-targets':
        # a->b filters around replacement of the row they dereference: all rows point at one target, the target is replaced
        # (same id, new values) between evaluations, for every target and several path filters (pool indices 3, 13, 23 ...)
        n = 0
        for target in range(12):
            ops = [['retarget', target]]
            for rep in range(3):
                for fi in (3, 13, 23, 33):
                    ops.append(['eval', fi])
                ops.append(['mutate', target])
            for fi in (3, 13, 23, 33, 0, 8):
                ops.append(['eval', fi])
            case = {'kind': 'history', 'capacity': 500, 'pool': 40, 'salt': 0, 'ops': ops}
            n += len(ops)
            try:
                history_check(case)
            except Violation as vi:
                acc.violation(vi)
        acc.bulk(n, n, labels=('history-targets',))
        acc.sample({'kind': 'history', 'ops': [['retarget', 0], ['eval', 3], ['mutate', 0], ['eval', 3]]})
    else:
        v = args['variant']
        ops = []
        npool = 1700
        hot = 3 + v          # a filter kept in the cache by regular use while > 1,000 others are compiled
        for i in range(0, 700):
            ops.append(['eval', i])
            if i % 50 == v:
                ops.append(['hold', i])
            if i % 90 == 0:
                ops.append(['eval', hot])
            if i % 37 == 5:
                ops.append(['mutate', i])
            if i in (505, 520, 560, 599):
                # filters compiled as #100..#199 (and #10..#19) are still cached now; the first ones are being evicted
                for j in (101, 117, 150, 199, 12 + v, 60):
                    ops.append(['eval', j])
        ops.append(['gc', 0])
        for i in range(0, 60):
            ops.append(['eval', (i * 7 + v) % 700])         # evicted and still-cached ones
            ops.append(['call_old', (i * 50 + v) % 700])
        for i in range(700, npool):
            ops.append(['eval', i])
            if i % 90 == 0:
                ops.append(['eval', hot])
            if i % 97 == v:
                ops.append(['eval', (i * 3) % 700])
                ops.append(['call_old', (v + 50 * (i % 14))])
        ops.append(['gc', 0])
        for i in range(0, npool, 13):
            ops.append(['eval', i])
        case = {'kind': 'history', 'capacity': 500, 'pool': npool, 'salt': v, 'ops': ops}
        try:
            crossed = history_check(case)
            acc.bulk(len(ops), len(ops) if crossed else 0, labels=('history-real-capacity',))
            acc.sample({'kind': 'history', 'capacity': 500, 'pool': npool, 'ops': ops[:12] + ['...'], 'n_ops': len(ops)})
        except Violation as vi:
            vi.case['ops'] = vi.case['ops'][:vi.case.get('step', 0) + 1]
            acc.violation(vi)
    return acc


def replay(stage, case):
    case = dict(case)
    if case.get('kind') == 'history':
        case.pop('step', None)
        history_check(case)
    else:
        run_schedule(case['threads'], case['schedule'], case.get('salt', 0))
