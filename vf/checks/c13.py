"""C13 - a filter's result is independent of other filters, earlier or concurrent."""
import gc
import itertools

from .. import sched
from ..core import Acc, Violation, run_hypothesis, shard_seed, describe_exc

PROPERTY = 'C13'
RULE = ('(a) schedules: 2-3 worker threads each compile and evaluate a distinct, never-before-seen filter on a shared grid '
        'while a harness-owned scheduler (sys.settrace line events inside filter_function, _filter_function and '
        '_FnWrapper.__init__/get/__del__ of hszinc/grid_filter.py and Grid.filter / Grid.reindex of hszinc/grid.py) decides which thread runs each source line; a schedule '
        'is the list of thread ids in resumption order. Enumerated: quick - yield points in the compile path and in Grid.reindex (~17 per '
        'thread), every 2-thread schedule with <= 4 (5,238) and every 3-thread schedule with <= 3 changes of the running thread; '
        'thorough - additionally every line of Grid.filter (~37 yield points per thread), every 2-thread schedule with <= 4 '
        'changes (50,025); plus Hypothesis-drawn schedules. Oracle: each thread gets exactly the rows its own filter denotes (reference evaluator), no exception, '
        'and a sequential re-evaluation afterwards still agrees. (b) histories around the compiled-filter cache: a '
        'Hypothesis-drawn sequence over a pool of distinct filters of evaluate-new / re-evaluate-cached / re-evaluate-evicted / '
        'call a function object obtained earlier / gc.collect, against the function re-wrapped with lru_cache(maxsize=8) '
        '(same body) and deterministic runs against the real capacity of 500 with 1,700 distinct filters (one of them kept hot); after every '
        'step rows == reference. Non-trivial = (a) the schedule preempts a thread inside the compile path, (b) the '
        'history crossed the cache capacity; distinct by schedule / history.')
ASSUMPTIONS = ['interleavings are at source-line granularity inside hszinc\'s Python code; C code (lru_cache, dict operations) '
               'is atomic under the GIL, as in production CPython',
               'the small-capacity runs replace hszinc.grid_filter._filter_function in the harness process by '
               'lru_cache(maxsize=8) of the same undecorated function']
FEATURES = {'filter.name-race': 'two threads compiling different filters at the same time can get the same generated function '
                                'name, so one filter evaluates the other\'s code'}
EXHAUSTIVE_CLAIM = True
COMPILE_PATH = ('filter_function', '_filter_function', '__init__', 'get', '__del__')
WHERE_QUICK = {'hszinc/grid_filter.py': COMPILE_PATH, 'hszinc/grid.py': ('reindex',)}
WHERE_FULL = {'hszinc/grid_filter.py': COMPILE_PATH, 'hszinc/grid.py': ('reindex', 'filter')}   # + every line of Grid.filter
WHERE = WHERE_QUICK
_COUNTER = itertools.count()
SCHED_ROWS = 4


def shared_grid(nrows=12):
    import hszinc
    g = hszinc.Grid(version='3.0')
    for c in ('id', 'n', 'k', 'f', 'r'):
        g.column[c] = {}
    for i in range(nrows):
        row = {'id': 'id%d' % i, 'n': float(i % 6), 'f': i % 3 == 0, 'r': hszinc.Ref('id%d' % ((i + 1) % nrows))}
        if i % 2:
            row['k'] = hszinc.MARKER
        g.append(row)
    return g


def fresh_filters(n, salt, nrows=12):
    """n filters with different results and texts never used before in this process.  Kinds: number literal,
    ordering + marker, negation, a->b path through the id index of the shared grid, bool literal (Python-equal to the
    number literals of other filters), and pairs made of the same tokens but grouped differently
    ('(k or n == v) and n != w ...' vs 'k or n == v and n != w ...': different meaning, same print-out)."""
    out = []
    i = 0
    R = range(nrows)
    while len(out) < n:
        u = next(_COUNTER)
        v = (salt + i) % 6
        kind = (salt + i) % 6
        i += 1
        if kind == 0:
            out.append(('n == %d and not zz%d_%d' % (v, salt, u), ['id%d' % j for j in R if j % 6 == v]))
        elif kind == 1:
            out.append(('n > %d and k and not zz%d_%d' % (v, salt, u), ['id%d' % j for j in R if j % 6 > v and j % 2]))
        elif kind == 2:
            out.append(('not k and n != %d and not zz%d_%d' % (v, salt, u), ['id%d' % j for j in R if j % 6 != v and not j % 2]))
        elif kind == 3:
            out.append(('r->n == %d and not zz%d_%d' % (v, salt, u), ['id%d' % j for j in R if ((j + 1) % nrows) % 6 == v]))
        elif kind == 4:
            out.append(('f == true and n != %d and not zz%d_%d' % (v, salt, u), ['id%d' % j for j in R if j % 3 == 0 and j % 6 != v]))
        else:
            w = (v + 1) % 6 if (v + 1) % 2 else (v + 2) % 6     # an odd n value: rows with k and n == w exist
            a = '(k or n == %d) and n != %d and not zz%d_%d' % (v, w, salt, u)
            wa = ['id%d' % j for j in R if (j % 2 or j % 6 == v) and j % 6 != w]
            b = 'k or n == %d and n != %d and not zz%d_%d' % (v, w, salt, u)
            wb = ['id%d' % j for j in R if j % 2 or (j % 6 == v and j % 6 != w)]
            out.append((a, wa))
            out.append((b, wb))
    return out[:n]


def run_schedule(nthreads, schedule, salt):
    """returns (Run, filters); raises Violation"""
    g = shared_grid(SCHED_ROWS)
    filters = fresh_filters(nthreads, salt, SCHED_ROWS)
    case = {'kind': 'schedule', 'threads': nthreads, 'schedule': list(schedule), 'salt': salt}

    def worker(text):
        def fn():
            return [r['id'] for r in g.filter(text)]
        return fn
    r = sched.Run(nthreads, schedule, WHERE)
    r.run([worker(t) for t, _ in filters])
    case['resumed'] = r.trace
    for i, (text, want) in enumerate(filters):
        if r.errors[i] is not None:
            raise Violation('thread-raised', case, 'thread %d evaluating %r raised %s' % (i, text, describe_exc(r.errors[i])),
                            (type(r.errors[i]).__name__,))
        if r.results[i] != want:
            others = [j for j, (_, w) in enumerate(filters) if j != i and w == r.results[i]]
            raise Violation('wrong-rows-under-concurrency', case,
                            'thread %d evaluating %r got %r, expected %r%s' % (
                                i, text, r.results[i], want, (' (the rows of thread %d\'s filter)' % others[0]) if others else ''))
    for i, (text, want) in enumerate(filters):
        try:
            again = [x['id'] for x in g.filter(text)]
        except Exception as e:  # noqa
            raise Violation('later-evaluation-raised', case, 're-evaluating %r afterwards raised %s' % (text, describe_exc(e)))
        if again != want:
            raise Violation('cached-filter-corrupted', case, 're-evaluating %r afterwards gives %r, expected %r' % (text, again, want))
    return r


def measure(nthreads, salt):
    """segments needed by each thread when run one after the other"""
    r = run_schedule(nthreads, [], salt)
    return [y + 1 for y in r.yields]


# ---------------------------------------------------------------- histories

def history_check(case):
    """case = {'kind': 'history', 'capacity': 8|500, 'pool': n, 'ops': [[op, i]...]}"""
    import hszinc.grid_filter as gf
    try:
        from functools import lru_cache
    except ImportError:  # pragma: no cover
        from backports.functools_lru_cache import lru_cache
    g = shared_grid()
    orig = gf._filter_function
    cap = case['capacity']
    if cap != gf.FILTER_CACHE_LRU_SIZE:
        gf._filter_function = lru_cache(maxsize=cap)(orig.__wrapped__)
    else:
        orig.cache_clear()
    try:
        pool = fresh_filters(case['pool'], case.get('salt', 0))
        held = {}
        seen = []
        for step, (op, i) in enumerate(case['ops']):
            i = i % len(pool)
            text, want = pool[i]
            try:
                if op == 'eval':
                    got = [r['id'] for r in g.filter(text)]
                    if i not in seen:
                        seen.append(i)
                elif op == 'hold':
                    held[i] = gf.filter_function(text)
                    got = want
                elif op == 'call_old':
                    if i not in held:
                        continue
                    fn = held[i]
                    got = [r['id'] for r in g if fn(g, r)]
                elif op == 'gc':
                    gc.collect()
                    continue
                else:
                    raise ValueError(op)
            except Exception as e:  # noqa
                raise Violation('history-raised', dict(case, step=step), 'step %d (%s filter %d %r) raised %s' % (
                    step, op, i, text, describe_exc(e)), (op, type(e).__name__))
            if got != want:
                raise Violation('history-wrong-rows', dict(case, step=step), 'step %d (%s filter %d %r): got %r expected %r' % (
                    step, op, i, text, got, want), (op,))
        return len(seen) > cap
    finally:
        gf._filter_function = orig
        orig.cache_clear()


def plan(tier, seed, excl):
    q = tier == 'quick'
    t = [('sched2', {'shard': i, 'of': 16, 'switches': 4 if q else 3}) for i in range(16)]
    t += [('sched3', {'shard': i, 'of': 4, 'switches': 3}) for i in range(4)]
    t += [('sched-random', {'shard': i, 'n': 150 if q else 6000}) for i in range(4 if q else 12)]
    t += [('history-small', {'shard': i, 'n': 120 if q else 2500}) for i in range(4)]
    t += [('history-real', {'variant': i}) for i in range(2 if q else 6)]
    return t


def run(part, args, env):
    global WHERE
    acc = Acc(part)
    WHERE = WHERE_QUICK if (env['tier'] == 'quick' or part == 'sched3') else WHERE_FULL
    if part in ('sched2', 'sched3'):
        n = 2 if part == 'sched2' else 3
        segs = measure(n, 0)
        scheds = sched.bounded_schedules(segs, args['switches'])
        cnt = nt = 0
        for i, s in enumerate(scheds):
            if i % args['of'] != args['shard']:
                continue
            try:
                r = run_schedule(n, s, i % 18)
            except Violation as v:
                acc.violation(v)
                if len(acc.violations) >= acc.MAX_VIOL:
                    break
                continue
            cnt += 1
            nt += sched.preemptions(r.trace) > n - 1
            if cnt % 97 == 1:
                acc.sample({'threads': n, 'schedule': s, 'yield_points_per_thread': [x - 1 for x in segs]})
        acc.bulk(cnt, nt, labels=(part,))
        acc.exhaustive['%d-thread schedules with <= %d switches (%d line-level yield points per thread: %d schedules)' % (
            n, args['switches'], segs[0] - 1, len(scheds))] = True
    elif part == 'sched-random':
        from hypothesis import strategies as st
        strat = st.tuples(st.sampled_from([2, 3, 3]), st.lists(st.integers(0, 2), max_size=120), st.integers(0, 17))

        def body(t):
            n, s, salt = t
            s = [x % n for x in s]
            r = run_schedule(n, s, salt)
            acc.case({'threads': n, 'resumed': r.trace}, sched.preemptions(r.trace) > n - 1, labels=('sched-random:%d' % n,))
            if acc.want_sample():
                acc.sample({'threads': n, 'schedule': s, 'resumed': r.trace})
        run_hypothesis(acc, body, strat, args['n'], shard_seed(env['seed'], PROPERTY, 'sr', args['shard']))
    elif part == 'history-small':
        from hypothesis import strategies as st
        op = st.one_of(st.tuples(st.just('eval'), st.integers(0, 29)), st.tuples(st.just('eval'), st.integers(0, 29)),
                       st.tuples(st.just('eval'), st.integers(0, 29)), st.tuples(st.just('eval'), st.integers(0, 11)),
                       st.tuples(st.just('hold'), st.integers(0, 29)), st.tuples(st.just('call_old'), st.integers(0, 29)),
                       st.tuples(st.just('gc'), st.just(0)))
        strat = st.lists(op, min_size=25, max_size=80).map(lambda ops: {'kind': 'history', 'capacity': 8, 'pool': 30,
                                                                       'ops': [list(o) for o in ops]})

        def body(case):
            crossed = history_check(case)
            acc.case(case, bool(crossed), labels=('history-small', 'crossed-capacity:%s' % bool(crossed)))
            if acc.want_sample() and len(case['ops']) < 25:
                acc.sample(case)
        run_hypothesis(acc, body, strat, args['n'], shard_seed(env['seed'], PROPERTY, 'h', args['shard']))
    else:
        v = args['variant']
        ops = []
        npool = 1700
        hot = 3 + v          # a filter kept in the cache by regular use while > 1,000 others are compiled
        for i in range(0, 700):
            ops.append(['eval', i])
            if i % 50 == v:
                ops.append(['hold', i])
            if i % 90 == 0:
                ops.append(['eval', hot])
        ops.append(['gc', 0])
        for i in range(0, 60):
            ops.append(['eval', (i * 7 + v) % 700])         # evicted and still-cached ones
            ops.append(['call_old', (i * 50 + v) % 700])
        for i in range(700, npool):
            ops.append(['eval', i])
            if i % 90 == 0:
                ops.append(['eval', hot])
            if i % 97 == v:
                ops.append(['eval', (i * 3) % 700])
                ops.append(['call_old', (v + 50 * (i % 14))])
        ops.append(['gc', 0])
        for i in range(0, npool, 13):
            ops.append(['eval', i])
        case = {'kind': 'history', 'capacity': 500, 'pool': npool, 'salt': v, 'ops': ops}
        try:
            crossed = history_check(case)
            acc.bulk(len(ops), len(ops) if crossed else 0, labels=('history-real-capacity',))
            acc.sample({'kind': 'history', 'capacity': 500, 'pool': npool, 'ops': ops[:12] + ['...'], 'n_ops': len(ops)})
        except Violation as vi:
            vi.case['ops'] = vi.case['ops'][:vi.case.get('step', 0) + 1]
            acc.violation(vi)
    return acc


def replay(stage, case):
    case = dict(case)
    if case.get('kind') == 'history':
        case.pop('step', None)
        history_check(case)
    else:
        run_schedule(case['threads'], case['schedule'], case.get('salt', 0))
