"""C04 - ZINC writer emits spec-conformant text that denotes the grid."""
from .. import gen, model, rt, zinc_ref
from .c01 import SIZES_RULE, FO_RULE
from ..core import Acc, Violation, guarded, run_hypothesis, shard_seed

PROPERTY = 'C04'
RULE = ('the grids of C01 (URIs without C0 controls) are dumped by hszinc and the text alone is judged by an independent '
        'recursive-descent reader of the ZINC grammar pinned in DESIGN.md Appendix A (shares no code with hszinc): it must '
        'accept the text under the declared version (header ver:"X" + tags, one column line, one line per row, exactly one '
        'cell per column, only the escapes \\b \\f \\n \\r \\t \\" \\\\ \\$ \\uXXXX in strings and \\\\ \\` \\uXXXX in URIs, no '
        'raw char < U+0020 inside literals, INF/-INF/NaN, digits starting with a digit, tag-name syntax, 3.0-only '
        'constructs only under >= 3.0, Bin literal only under < 3.0, final newline) and the value it reads must equal the '
        'model (exact; coordinates to six decimals). Same for dump_scalar. Non-trivial and distinct as C01.' + SIZES_RULE + FO_RULE)
ASSUMPTIONS = ['conformance is judged against the harness\'s transcription of the Project Haystack ZINC grammar (Appendix A); '
               'constructs that could not be confirmed offline are accepted by the reader, never required',
               'URIs contain no C0 controls (the reference implementations disagree on URI escapes beyond \\\\ \\` \\uXXXX)']
FEATURES = {}
EXHAUSTIVE_CLAIM = False
ALLOWED_LIBERAL = {'xstr-type-lowercase'}


def check_scalar(case):
    import hszinc
    m, ver = case['value'], case['ver']
    v = model.from_model(m)
    txt = guarded('dump-raises', case, hszinc.dump_scalar, v, mode=rt._mode('zinc', len(repr(m))), version=(hszinc.Version(ver) if len(repr(m)) % 3 else ver))
    try:
        back, r = zinc_ref.read_scalar(txt, ver)
    except zinc_ref.ZincRefError as e:
        raise Violation('not-conformant', case, '%s | text=%r' % (e, txt[:300]), (e.msg.split(' ')[0],))
    bad = set(r.liberal) - ALLOWED_LIBERAL
    if bad:
        raise Violation('not-conformant', case, 'only liberally accepted: %s | text=%r' % (sorted(bad), txt[:300]), tuple(sorted(bad)))
    d = model.diff(model.normalise(m), back)
    if d:
        raise Violation('denotes-other-value', case, '%s | text=%r' % (d, txt[:300]), (m[0],))


def check_doc(case):
    import hszinc
    ms = case['grids']
    gs = [model.from_model(m) for m in ms]
    txt = rt.dump_doc(case, gs, case['single'], 'zinc', len(repr(ms)))
    try:
        back, r = zinc_ref.read_document(txt)
    except zinc_ref.ZincRefError as e:
        raise Violation('not-conformant', case, '%s | text=%r' % (e, txt[max(0, e.pos - 80):e.pos + 40]), (e.msg.split(' ')[0],))
    bad = set(r.liberal) - ALLOWED_LIBERAL - {'extra-blank-line', 'trailing-blank-line'}
    if bad:
        raise Violation('not-conformant', case, 'only liberally accepted: %s | text=%r' % (sorted(bad), txt[:300]), tuple(sorted(bad)))
    if not txt.endswith('\n'):
        raise Violation('not-conformant', case, 'text does not end with a newline')
    if len(back) != len(ms):
        raise Violation('grid-count', case, 'dumped %d grids, independent reader sees %d' % (len(ms), len(back)))
    for i, (m, b) in enumerate(zip(ms, back)):
        d = model.diff(model.normalise(m), b, path='grid[%d]' % i)
        if d:
            raise Violation('denotes-other-value', case, '%s | text=%r' % (d, txt[:400]), (d.split(':')[1].split()[0],))


def plan(tier, seed, excl):
    q = tier == 'quick'
    t = [('catalogue-scalars', {'ver': v}) for v in ('2.0', '3.0')]
    t += [('catalogue-grids', {'shard': i, 'of': 2}) for i in range(2)]
    t += [('scalars', {'shard': i, 'n': 6000 if q else 80000}) for i in range(6)]
    t += [('sizes', {'shard': i, 'of': 8, 'tier': tier}) for i in range(8)]
    t += [('fixed-offset', {'order': k}) for k in range(3)]
    t += [('grids', {'shard': i, 'n': 2500 if q else 40000}) for i in range(16)]
    return t


def run(part, args, env):
    from hypothesis import strategies as st
    acc = Acc(part)
    excl = env['excl']
    if part == 'catalogue-scalars':
        for m in gen.catalogue_scalars(args['ver'], excl):
            if m[0] == 'uri' and any(ord(c) < 0x20 for c in m[1]):
                continue
            case = {'kind': 'scalar', 'ver': args['ver'], 'value': m}
            acc.case(case, m[0] != 'null', labels=(m[0] + '@scalar',))
            try:
                check_scalar(case)
            except Violation as v:
                acc.violation(v)
        acc.exhaustive['catalogue of boundary scalars x versions'] = True
    elif part == 'catalogue-grids':
        for i, m in enumerate(gen.catalogue_grids(excl)):
            if i % args['of'] != args['shard'] or _has_c0_uri(m):
                continue
            case = {'kind': 'doc', 'single': i % 3 != 0, 'grids': [m] if i % 3 else [m, m]}
            acc.case(case, rt.doc_nontrivial([m]), labels=rt.labels_for([m]))
            if i % 97 == 0:
                acc.sample(case)
            try:
                check_doc(case)
            except Violation as v:
                acc.violation(v)
        acc.exhaustive['every kind sample x every position x versions'] = True
    elif part == 'fixed-offset':
        rt.fixed_offset_part(acc, 'zinc', 'ref', args.get('order', 0))
    elif part == 'sizes':
        from .c01 import sizes_part
        sizes_part(acc, args, check_doc)
    elif part == 'scalars':
        strat = st.sampled_from(['2.0', '3.0']).flatmap(
            lambda v: gen.values(v, depth=1, excl=excl, uri_conformant=True).map(lambda m: {'kind': 'scalar', 'ver': v, 'value': m}))

        def body(case):
            m = case['value']
            acc.case(case, m[0] != 'null', labels=(m[0] + '@scalar',))
            if acc.want_sample():
                acc.sample(case)
            check_scalar(case)
        run_hypothesis(acc, body, strat, args['n'], shard_seed(env['seed'], PROPERTY, 's', args['shard']))
    else:
        strat = gen.grid_docs(excl, uri_conformant=True, depth=2).map(lambda d: dict(d, kind='doc'))

        def body(case):
            acc.case(case, rt.doc_nontrivial(case['grids']), labels=rt.labels_for(case['grids']) | {
                'multi' if not case['single'] else 'single'})
            if acc.want_sample() and len(repr(case)) < 1500:
                acc.sample(case)
            check_doc(case)
        run_hypothesis(acc, body, strat, args['n'], shard_seed(env['seed'], PROPERTY, 'g', args['shard']))
    return acc


def _has_c0_uri(m):
    if m[0] == 'uri':
        return any(ord(c) < 0x20 for c in m[1])
    if m[0] == 'list':
        return any(_has_c0_uri(x) for x in m[1])
    if m[0] == 'dict':
        return any(_has_c0_uri(x) for _, x in m[1])
    if m[0] == 'grid':
        return any(_has_c0_uri(v) for _, v in m[2]) or any(_has_c0_uri(v) for _, cm in m[3] for _, v in cm) or \
            any(_has_c0_uri(v) for r in m[4] for _, v in r)
    return False


def replay(stage, case):
    if case['kind'] == 'fixed-offset' and 'upto' in case:
        return rt.check_fixed_offset_seq(case, 'zinc', 'ref')
    if case['kind'] == 'fixed-offset':
        return rt.check_fixed_offset(case, 'zinc', 'ref')
    if case['kind'] == 'scalar':
        check_scalar(case)
    else:
        check_doc(case)
