"""C18 - Version numbers form a total order consistent with equality and hashing."""
import itertools
import re
import warnings

from ..core import Acc, Violation, guarded, run_hypothesis, shard_seed

PROPERTY = 'C18'
RULE = ('version strings = 1-3 numeric groups over {0,1,2,3,10} x suffix in {"",a,b,rc1,-x,A," "," a",rc01,rc10,rc2,rc1a} (1,860 strings, '
        'enumerated) plus Hypothesis strings matching the constructor regex (no newline in suffix); every ordered pair '
        'is checked for trichotomy, agreement of the six operators with an independent reference key, string operands '
        'on either side, hash/set/dict consistency, nearest(); triples for transitivity. Non-trivial = the two strings '
        'differ and at least one has a suffix or they differ in number of groups (padding); distinct = by string tuple.')
ASSUMPTIONS = ['suffix text contains no newline (the constructor regex is line-oriented; outside the property)',
               'reference order: numeric groups compared after stripping trailing zero groups, then no-suffix before '
               'suffix, suffixes by code-point order (the order documented in hszinc/version.py)']
FEATURES = {'version.hash': 'equal versions with different zero padding hash differently'}
EXHAUSTIVE_CLAIM = True

GROUPS = ['0', '1', '2', '3', '10']
SUFFIXES = ['', 'a', 'b', 'rc1', '-x', 'A', ' ', ' a', 'rc01', 'rc10', 'rc2', 'rc1a']


def universe():
    out = []
    for n in (1, 2, 3):
        for g in itertools.product(GROUPS, repeat=n):
            for s in SUFFIXES:
                out.append('.'.join(g) + s)
    return out


_RE = re.compile(r'^(\d[\d.]*)([^\d\n][^\n]*)?$')


def ref_key(s):
    m = _RE.match(s)
    nums = [int(p or 0) for p in m.group(1).split('.')]
    while nums and nums[-1] == 0:
        nums.pop()
    suf = m.group(2)
    return (tuple(nums), (0, '') if suf is None else (1, suf))


def ref_cmp(a, b):
    ka, kb = ref_key(a), ref_key(b)
    return (ka > kb) - (ka < kb)


def nontrivial(a, b):
    if a == b:
        return False
    ma, mb = _RE.match(a), _RE.match(b)
    return bool(ma.group(2) or mb.group(2)) or ma.group(1).count('.') != mb.group(1).count('.')


_OFFICIAL = []


def official():
    """the official versions as the package lists them *before* the first look-up of this process (a look-up that
    enlarges the table must not thereby make its own answers official)"""
    if not _OFFICIAL:
        from hszinc.version import OFFICIAL_VERSIONS
        _OFFICIAL.extend(sorted(str(o) for o in OFFICIAL_VERSIONS))
    return list(_OFFICIAL)


def _V():
    from hszinc.version import Version
    return Version


def check_pair(a, b, excl=frozenset()):
    Version = _V()
    case = {'a': a, 'b': b}
    va = guarded('construct', case, Version, a)
    vb = guarded('construct', case, Version, b)
    want = ref_cmp(a, b)

    def ops(x, y):
        return guarded('compare-raises', case, lambda: (x < y, x <= y, x == y, x != y, x >= y, x > y))

    expect = (want < 0, want <= 0, want == 0, want != 0, want >= 0, want > 0)
    got = ops(va, vb)
    for r in got:
        if not isinstance(r, bool):
            raise Violation('compare-type', case, 'non-bool comparison result %r' % (r,))
    if sum([got[0], got[2], got[5]]) != 1:
        raise Violation('trichotomy', case, 'lt,eq,gt = %r' % ([got[0], got[2], got[5]],))
    if got != expect:
        raise Violation('reference-order', case, 'ops (lt,le,eq,ne,ge,gt)=%r reference=%r' % (got, expect))
    if ops(va, b) != expect:
        raise Violation('string-operand-right', case, 'Version(a) op "b" = %r, want %r' % (ops(va, b), expect))
    if ops(a, vb) != expect:
        raise Violation('string-operand-left', case, '"a" op Version(b) = %r, want %r' % (ops(a, vb), expect))
    if want == 0 and 'version.hash' not in excl:
        if hash(va) != hash(vb):
            raise Violation('hash', case, 'equal versions, different hashes')
        if va not in {vb} or {va: 1}.get(vb) != 1:
            raise Violation('set-membership', case, 'equal version not found in set/dict')
        from hszinc import zincparser
        with warnings.catch_warnings():
            warnings.simplefilter('ignore')
            for tbl in ('hs_grid', 'hs_scalar'):
                t = getattr(zincparser, tbl)
                if guarded('grammar-cache', case, t.__getitem__, va) is not guarded('grammar-cache', case, t.__getitem__, vb):
                    raise Violation('grammar-cache', case, '%s differs for equal versions' % tbl)
    # nearest: official, equal if one exists, monotone
    offs = official()
    with warnings.catch_warnings():
        warnings.simplefilter('ignore')
        na = guarded('nearest-raises', case, Version.nearest, va)
        nb = guarded('nearest-raises', case, Version.nearest, vb)
        ns = guarded('nearest-raises', case, Version.nearest, a)
    if not any(ref_cmp(str(na), o) == 0 for o in offs):
        raise Violation('nearest-official', case, 'nearest(%s)=%s not official' % (a, na))
    if ref_cmp(str(ns), str(na)) != 0:
        raise Violation('nearest-string', case, 'nearest("a")=%s nearest(Version(a))=%s' % (ns, na))
    for o in offs:
        if ref_cmp(a, o) == 0 and ref_cmp(str(na), o) != 0:
            raise Violation('nearest-equal', case, 'nearest(%s)=%s but official %s is equal' % (a, na, o))
    if want <= 0 and ref_cmp(str(na), str(nb)) > 0:
        raise Violation('nearest-monotone', case, 'a<=b but nearest(a)=%s > nearest(b)=%s' % (na, nb))


def check_long_lived(n, upto=None):
    """The same Version objects - one per string of the n-string subset, plus the module's own VER_2_0 / VER_3_0 - are
    compared with each other over and over in a fixed order (every ordered pair, interleaved with nearest() look-ups).  An
    object that remembers something from an earlier comparison (padded groups, a cached key) must still compare by the
    reference order.  A violation is replayed by re-running the sequence up to its step.  Returns the number of steps."""
    from hszinc import version as vmod
    Version = _V()
    S = triple_subset(n)
    pool = dict((s, Version(s)) for s in S)
    consts = [(str(c), c) for c in (getattr(vmod, 'VER_2_0', None), getattr(vmod, 'VER_3_0', None)) if c is not None]
    k = 0
    for a in S:
        for b in S:
            k += 1
            case = {'long_lived': n, 'upto': k, 'a': a, 'b': b}
            want = ref_cmp(a, b)
            expect = (want < 0, want <= 0, want == 0, want != 0, want >= 0, want > 0)
            x, y = pool[a], pool[b]
            got = guarded('compare-raises', case, lambda: (x < y, x <= y, x == y, x != y, x >= y, x > y))
            if got != expect:
                raise Violation('reference-order-long-lived', case, 'objects that have been compared before: ops (lt,le,eq,ne,ge,gt)=%r reference=%r' % (got, expect))
            got = guarded('compare-raises', case, lambda: (x < b, x <= b, x == b, x != b, x >= b, x > b))
            if got != expect:
                raise Violation('reference-order-long-lived', case, 'long-lived Version(a) against the string b: %r reference=%r' % (got, expect))
            if want == 0 and hash(x) != hash(y):
                raise Violation('hash', case, 'equal long-lived versions, different hashes')
            if k % 7 == 0:
                with warnings.catch_warnings():
                    warnings.simplefilter('ignore')
                    guarded('nearest-raises', case, Version.nearest, x)
            for cs, c in consts:
                w2 = ref_cmp(cs, b)
                e2 = (w2 < 0, w2 <= 0, w2 == 0, w2 != 0, w2 >= 0, w2 > 0)
                g2 = guarded('compare-raises', case, lambda: (c < y, c <= y, c == y, c != y, c >= y, c > y))
                g3 = guarded('compare-raises', case, lambda: (c < b, c <= b, c == b, c != b, c >= b, c > b))
                if g2 != e2 or g3 != e2:
                    raise Violation('reference-order-long-lived', case, 'module constant %s against %r: %r / %r reference=%r' % (cs, b, g2, g3, e2))
            if upto is not None and k >= upto:
                return k
    return k


def check_triple(a, b, c):
    Version = _V()
    case = {'a': a, 'b': b, 'c': c}
    va, vb, vc = Version(a), Version(b), Version(c)
    if va <= vb and vb <= vc and not va <= vc:
        raise Violation('transitivity', case, 'a<=b<=c but not a<=c')
    if va < vb and vb < vc and not va < vc:
        raise Violation('transitivity', case, 'a<b<c but not a<c')
    if va == vb and vb == vc and not va == vc:
        raise Violation('transitivity', case, 'a==b==c but not a==c')
    if va == vb and ((va < vc) != (vb < vc) or (vc < va) != (vc < vb)):
        raise Violation('congruence', case, 'a==b but they order differently against c')


CHAIN = ['2', '2.0', '2.0.0', '2.0a', '2.0b', '2.0.1', '10.0']


def check_chain():
    Version = _V()
    vs = [Version(s) for s in CHAIN]
    case = {'chain': CHAIN}
    if not (vs[0] == vs[1] == vs[2]):
        raise Violation('chain', case, '2 == 2.0 == 2.0.0 fails')
    for i in range(2, len(vs) - 1):
        if not (vs[i] < vs[i + 1]) or vs[i + 1] <= vs[i]:
            raise Violation('chain', case, '%s < %s fails' % (CHAIN[i], CHAIN[i + 1]))
    for bad in ['', 'a', '.1', 'x2.0']:
        try:
            Version(bad)
        except ValueError:
            continue
        except Exception as e:
            raise Violation('construct-bad', {'a': bad}, 'raised %r instead of ValueError' % (e,))


def plan(tier, seed, excl):
    U = universe()
    n = len(U)
    nsh = 16
    tasks = [('pairs', {'lo': i * n // nsh, 'hi': (i + 1) * n // nsh}) for i in range(nsh)]
    tn = 40 if tier == 'quick' else 120
    for i in range(8):
        tasks.append(('triples', {'n': tn, 'shard': i, 'of': 8}))
    tasks.append(('long-lived', {'n': 150 if tier == 'quick' else 300}))
    for i in range(4):
        tasks.append(('random', {'shard': i, 'n': 3000 if tier == 'quick' else 60000}))
    return tasks


def triple_subset(n):
    U = universe()
    # deterministic spread: every k-th element, always including the chain of the statement
    step = max(1, len(U) // (n - len(CHAIN)))
    sub = list(CHAIN) + U[::step]
    seen, outl = set(), []
    for s in sub:
        if s not in seen:
            seen.add(s)
            outl.append(s)
    return outl[:n]


def run(part, args, env):
    acc = Acc(part)
    excl = env['excl']
    if part == 'long-lived':
        try:
            k = check_long_lived(args['n'])
        except Violation as v:
            acc.violation(v)
            k = v.case.get('upto', 0)
        acc.bulk(k, k, labels=('long-lived',))
        acc.sample({'long_lived': args['n'], 'upto': k})
        acc.exhaustive['ordered pairs of long-lived objects over the %d-string subset, in sequence' % args['n']] = k
        return acc
    if part == 'pairs':
        U = universe()
        nt = 0
        for a in U[args['lo']:args['hi']]:
            for b in U:
                try:
                    check_pair(a, b, excl)
                except Violation as v:
                    acc.violation(v)
                    if len(acc.violations) >= acc.MAX_VIOL:
                        break
                nt += nontrivial(a, b)
        cnt = (args['hi'] - args['lo']) * len(U)
        acc.bulk(cnt, nt, labels=('pair',))
        acc.exhaustive['ordered pairs over 930 version strings'] = len(U) ** 2
        acc.sample({'a': U[args['lo']], 'b': U[-1 - args['lo']]})
        if args['lo'] == 0:
            try:
                check_chain()
            except Violation as v:
                acc.violation(v)
            acc.bulk(1, 1, labels=('chain',))
    elif part == 'triples':
        S = triple_subset(args['n'])
        k = 0
        for i, a in enumerate(S):
            if i % args['of'] != args['shard']:
                continue
            for b in S:
                for c in S:
                    k += 1
                    try:
                        check_triple(a, b, c)
                    except Violation as v:
                        acc.violation(v)
                        break
        acc.bulk(k, k, labels=('triple',))
        acc.exhaustive['ordered triples over %d-string subset' % len(S)] = len(S) ** 3
        acc.sample({'a': S[args['shard']], 'b': S[len(S) // 2], 'c': S[-1]})
    elif part == 'random':
        from hypothesis import strategies as st
        num = st.integers(0, 10 ** 6).map(str) | st.sampled_from(['0', '00', '01', '2', '3', '10'])
        nums = st.lists(num, min_size=1, max_size=5).map('.'.join)
        trail = st.sampled_from(['', '', '.', '..'])
        suf = st.one_of(st.just(''), st.text(
            alphabet=st.characters(blacklist_categories=('Cs',), blacklist_characters='\n\r'), min_size=1, max_size=4)
            .filter(lambda s: not s[0].isdecimal()))
        ver = st.builds(lambda n, t, s: n + t + s, nums, trail, suf).filter(lambda s: _RE.match(s) is not None)
        nosuf = st.builds(lambda n, t: n + t, nums, trail)
        pair = st.tuples(ver, ver) | ver.map(lambda v: (v, v + '.0')) | ver.map(lambda v: (v, v)) | \
            nosuf.map(lambda v: (v, v + '.1')) | nosuf.map(lambda v: (v + '.0.0.1', v + '.0.0.2')) | ver.map(lambda v: (v, v + ' ')) | \
            nosuf.map(lambda v: (v, v + '.'))

        def body(p):
            a, b = p
            acc.case(p, nontrivial(a, b), labels=('random-pair',))
            if acc.want_sample():
                acc.sample({'a': a, 'b': b})
            check_pair(a, b, excl)
            check_triple(a, b, a + 'a')
        run_hypothesis(acc, body, pair, args['n'], shard_seed(env['seed'], 'c18', args['shard']))
    return acc


def replay(stage, case):
    if 'long_lived' in case:
        return check_long_lived(case['long_lived'], case['upto'])
    if 'chain' in case:
        return check_chain()
    if 'c' in case:
        return check_triple(case['a'], case['b'], case['c'])
    return check_pair(case['a'], case['b'])
