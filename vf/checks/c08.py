"""C08 - no string payload can alter grid structure (escaping is injective and contained)."""
import itertools

from .. import gen, model
from ..core import Acc, Violation, guarded, run_hypothesis, shard_seed, describe_exc

PROPERTY = 'C08'
RULE = ('payload strings are placed in every text-carrying position - str, Uri, Ref display, XStr payload (scalar level and as '
        'cells), grid-metadata value, dict value, str cell of a nested grid - of a probe document of 2 grids with sentinel '
        'neighbours ("<L>", "<R>", a number, a marker, a following grid); after dump+parse in ZINC and in JSON the document must '
        'have the same number of grids, rows and cells, identical sentinels and the identical payload (kind and content). '
        'Enumerated: every scalar code point U+0000..U+10FFFF except surrogates as a one-character payload (quick: U+0000..'
        'U+2FFF, 64 code points around every plane boundary and a seed-chosen stride sample; thorough: all), every string of '
        'length <= 2 (quick) / <= 3 (thorough) over a 34-character metachar alphabet; plus Hypothesis strings up to 40 atoms. '
        'Payloads are batched 48 per probe grid and bisected on failure. Non-trivial = payload contains a character outside '
        '[A-Za-z0-9 ]; distinct by (payload, position set, format, version).')
ASSUMPTIONS = ['lone surrogates are not payloads (not encodable, cannot occur in a document)',
               'XStr payload positions exist only under 3.0; dict and nested-grid positions only under 3.0']
FEATURES = {}
EXHAUSTIVE_CLAIM = True

ALPHABET = ['"', '\\', '$', '`', ',', ':', ';', '\n', '\r', '\t', '\b', '\f', '\x00', '\x1f', '\x7f', u'\x80', u'\xe9',
            u'\u2028', u'\ufeff', u'\uffff', u'\U0001F600', ' ', '1', 'n', 'N', 's', 'x', '>', '<', '[', '{', '(', '@', 'u']
SCALAR_POS = ['str', 'uri', 'refdis', 'xstr']
XSTR_TYPES = ['Foo', 'Hex', 'B64', 'Span']     # 'Hex'/'B64' are NOT the hex/b64 codecs: opaque text like any other type
BATCH = 48


def scalar_value(pos, p):
    if pos == 'str':
        return ['str', p]
    if pos == 'uri':
        return ['uri', p]
    if pos == 'refdis':
        return ['ref', 'r1', p]
    return ['xstr', XSTR_TYPES[sum(ord(c) for c in p) % len(XSTR_TYPES)], p]


def check_scalar_payload(p, fmt, ver='3.0'):
    """all scalar-level positions for one payload"""
    import hszinc
    from .. import rt
    mode = rt._mode(fmt, len(p))
    for pos in SCALAR_POS:
        if pos.startswith('xstr') and ver != '3.0':
            continue
        case = {'kind': 'scalar', 'payload': p, 'pos': pos, 'fmt': fmt, 'ver': ver}
        m = scalar_value(pos, p)
        v = model.from_model(m)
        try:
            txt = hszinc.dump_scalar(v, mode=mode, version=hszinc.Version(ver))
            back = hszinc.parse_scalar(txt, mode=mode, version=ver)
        except Exception as e:  # noqa
            raise Violation('scalar-raises', case, 'payload %r at %s: %s' % (p, pos, describe_exc(e)), (pos, fmt))
        d = model.diff(m, model.to_model(back))
        if d:
            raise Violation('scalar-payload-changed', case, 'payload %r at %s: %s | text=%r' % (p, pos, d, txt), (pos, fmt))


def probe(payloads, ver):
    """two grids; the first carries the payloads, the second is a sentinel"""
    rows = []
    for i, p in enumerate(payloads):
        kinds = ['str', 'uri', 'refdis']
        if ver == '3.0':
            kinds += ['xstr', 'dict', 'nested', 'list']
        for k in kinds:
            if k in SCALAR_POS:
                v = scalar_value(k, p)
            elif k == 'dict':
                v = ['dict', [['k', ['str', p]], ['z', ['marker']]]]
            elif k == 'list':
                v = ['list', [['str', p], ['str', '<in>']]]
            else:
                v = ['grid', '3.0', [['gm', ['str', p]]], [['x', []], ['y', []]], [[['x', ['str', p]], ['y', ['str', '<N>']]]]]
            rows.append([['a', ['str', '<L>']], ['b', v], ['c', ['str', '<R>']]])
    rows.append([['a', ['num', 42.0]], ['c', ['marker']]])
    g1 = ['grid', ver, [['m1', ['str', payloads[0]]], ['m2', ['str', '<M>']]],
          [['a', []], ['b', [['cm', ['str', payloads[-1]]]]], ['c', []]], rows]
    g2 = ['grid', ver, [['tail', ['marker']]], [['s', []]], [[['s', ['str', '<END>']]]]]
    return [g1, g2]


def check_probe(payloads, fmt, ver):
    import hszinc
    from .. import rt
    mode = rt._mode(fmt, sum(len(x) for x in payloads))
    case = {'kind': 'probe', 'payloads': payloads, 'fmt': fmt, 'ver': ver}
    if sum(len(x) for x in payloads) % 3 == 0:
        # every third probe follows a *refused* dump of a look-alike probe (the same payloads shifted by one position, one
        # cell of no Haystack kind) that is dropped and collected before the probe proper is built: whatever the writer
        # kept about the dead objects must not leak into values that now live at their addresses
        import gc
        case['after_refused_dump'] = True
        try:
            junk = [model.from_model(m) for m in probe(payloads[1:] + payloads[:1], ver)]
            junk[0].append({list(junk[0].column.keys())[0]: object()})
            try:
                hszinc.dump(junk, mode=mode)
            except Exception:      # noqa - refused, as intended
                pass
            del junk
        except Exception:      # noqa - building the look-alike is not the subject
            pass
        gc.collect()
    ms = probe(payloads, ver)
    gs = [model.from_model(m) for m in ms]
    try:
        txt = hszinc.dump(gs, mode=mode)
        back = hszinc.parse(txt, mode=mode, single=False)
    except Exception as e:  # noqa
        raise Violation('probe-raises', case, describe_exc(e), (fmt,))
    if len(back) != 2:
        raise Violation('grid-count', case, 'document of 2 grids came back as %d grids' % len(back), (fmt,))
    for i, (m, b) in enumerate(zip(ms, back)):
        d = model.diff(m, model.to_model(b), path='grid[%d]' % i)
        if d:
            raise Violation('structure-or-payload-changed', case, d, (fmt,))


def check_batch(payloads, fmt, ver):
    """probe with bisection: returns list of Violations (at most 3 culprits)"""
    try:
        check_probe(payloads, fmt, ver)
        return []
    except Violation as v:
        if len(payloads) == 1:
            return [v]
    mid = len(payloads) // 2
    out = check_batch(payloads[:mid], fmt, ver)
    if len(out) < 3:
        out += check_batch(payloads[mid:], fmt, ver)
    return out[:3]


def nontrivial(p):
    return any(not (c.isascii() and (c.isalnum() or c == ' ')) for c in p)


def codepoints(tier, seed):
    if tier == 'thorough':
        return [c for c in range(0x110000) if not (0xD800 <= c <= 0xDFFF)]
    s = set(range(0x3000))
    for plane in range(1, 17):
        b = plane * 0x10000
        s.update(range(b - 64, b + 64))
    s.update(range(0xD800 - 64, 0xE000 + 64))
    s.update(range(0xFFF0, 0x10010))
    s.update(range(0x110000 - 64, 0x110000))
    stride = 211
    s.update(range(0x3000 + (seed % stride), 0x110000, stride))
    return sorted(c for c in s if not (0xD800 <= c <= 0xDFFF) and c < 0x110000)


def strings(maxlen):
    for n in range(0, maxlen + 1):
        for t in itertools.product(ALPHABET, repeat=n):
            yield u''.join(t)


LONG_PAYLOADS = ['HTTP://Example.COM/Path?Q=1#Frag', 'Https://USER@Host.Example:8080/A/B', 'FILE:///C:/Dir/File.TXT', 'MAILTO:Some.One@Example.ORG',
                 '"' * 40, u'\xe9' * 40 + '"', '\\' * 33 + '"', '$' * 100 + '\\', u'\u20ac"' * 35, 'a"' * 64, u'\xe9' * 1200,
                 ('\\n' * 500) + '"', u'\u043f\u0440\u0438\u0432\u0435\u0442 ' * 300, '\t' * 1100, 'x' * 5000 + '"' + 'y' * 5000,
                 '`' * 50 + '\\', ',' * 300, '\n' * 64, '>>' * 40 + '<<' * 40]


def plan(tier, seed, excl):
    q = tier == 'quick'
    nsh = 16
    t = [('codepoints-scalar', {'shard': i, 'of': nsh}) for i in range(nsh)]
    t += [('codepoints-probe', {'shard': i, 'of': nsh}) for i in range(nsh)]
    t += [('strings', {'shard': i, 'of': nsh, 'maxlen': 2 if q else 3}) for i in range(nsh)]
    t += [('random', {'shard': i, 'n': 300 if q else 8000}) for i in range(8)]
    t += [('long', {'shard': i, 'of': 3}) for i in range(3)]
    return t


def run(part, args, env):
    acc = Acc(part)
    tier, seed = env['tier'], env['seed']
    if part == 'codepoints-scalar':
        cps = codepoints(tier, seed)[args['shard']::args['of']]
        n = 0
        for c in cps:
            p = chr(c)
            for fmt in ('zinc', 'json'):
                n += 1
                try:
                    check_scalar_payload(p, fmt)
                except Violation as v:
                    acc.violation(v)
                    if len(acc.violations) >= acc.MAX_VIOL:
                        return acc
        acc.bulk(n * len(SCALAR_POS), n * len(SCALAR_POS), labels=('codepoint@scalar',))
        acc.sample({'kind': 'scalar', 'payload': chr(cps[len(cps) // 2]), 'positions': SCALAR_POS})
        acc.exhaustive['one-character payloads at scalar level (code points: %s)' % (
            'all 1,112,064' if tier == 'thorough' else 'U+0000..U+2FFF + plane boundaries + stride sample')] = True
    elif part == 'codepoints-probe':
        cps = codepoints(tier, seed)[args['shard']::args['of']]
        n = 0
        for i in range(0, len(cps), BATCH):
            payloads = [chr(c) for c in cps[i:i + BATCH]]
            for fmt in ('zinc', 'json'):
                ver = '3.0' if (i // BATCH) % 4 else '2.0'
                for v in check_batch(payloads, fmt, ver):
                    acc.violation(v)
                n += len(payloads)
            if len(acc.violations) >= acc.MAX_VIOL:
                return acc
        acc.bulk(n, n, labels=('codepoint@probe',))
        acc.sample({'kind': 'probe', 'payloads': [chr(c) for c in cps[:3]], 'fmt': 'zinc', 'ver': '3.0'})
        acc.exhaustive['one-character payloads in all grid positions'] = True
    elif part == 'strings':
        ss = [s for i, s in enumerate(strings(args['maxlen'])) if i % args['of'] == args['shard']]
        n = 0
        for s in ss:
            for fmt in ('zinc', 'json'):
                n += 1
                try:
                    check_scalar_payload(s, fmt)
                except Violation as v:
                    acc.violation(v)
        for i in range(0, len(ss), BATCH):
            payloads = ss[i:i + BATCH]
            for fmt in ('zinc', 'json'):
                for ver in ('2.0', '3.0'):
                    for v in check_batch(payloads, fmt, ver):
                        acc.violation(v)
                    n += len(payloads)
            if len(acc.violations) >= acc.MAX_VIOL:
                return acc
        acc.bulk(n, sum(1 for s in ss if nontrivial(s)) * 6, labels=('metachar-string',))
        acc.sample({'kind': 'probe', 'payloads': ss[1:4], 'fmt': 'json', 'ver': '3.0'})
        acc.exhaustive['all strings of length <= %d over the %d-character metachar alphabet, every position, both formats' % (
            args['maxlen'], len(ALPHABET))] = True
    elif part == 'long':
        n = 0
        for i, p in enumerate(LONG_PAYLOADS):
            if i % args['of'] != args['shard']:
                continue
            for fmt in ('zinc', 'json'):
                n += 1
                try:
                    check_scalar_payload(p, fmt)
                    for ver in ('2.0', '3.0'):
                        check_probe([p], fmt, ver)
                except Violation as v:
                    v.case['payloads'] = [x[:200] + '...' if len(x) > 200 else x for x in v.case.get('payloads', [])] or None
                    v.case['long_payload_index'] = i
                    acc.violation(v)
        acc.bulk(n, n, labels=('long-payload',))
        acc.sample({'kind': 'long', 'index': args['shard'], 'length': len(LONG_PAYLOADS[args['shard']])})
    else:
        from hypothesis import strategies as st
        atoms = st.one_of(st.sampled_from(ALPHABET), st.sampled_from(gen.META_ATOMS), gen.any_char)
        payload = st.lists(atoms, min_size=1, max_size=40).map(u''.join)
        strat = st.tuples(st.lists(payload, min_size=1, max_size=4), st.sampled_from(['zinc', 'json']), st.sampled_from(['2.0', '3.0']))

        def body(t):
            payloads, fmt, ver = t
            case = {'kind': 'probe', 'payloads': payloads, 'fmt': fmt, 'ver': ver}
            acc.case(case, any(nontrivial(p) for p in payloads), labels=('random:' + fmt,))
            if acc.want_sample():
                acc.sample(case)
            check_probe(payloads, fmt, ver)
            for p in payloads:
                check_scalar_payload(p, fmt, ver)
        run_hypothesis(acc, body, strat, args['n'], shard_seed(env['seed'], PROPERTY, args['shard']))
    return acc


def replay(stage, case):
    if 'long_payload_index' in case:
        p = LONG_PAYLOADS[case['long_payload_index']]
        check_scalar_payload(p, case['fmt'], case.get('ver', '3.0'))
        return check_probe([p], case['fmt'], case.get('ver', '3.0'))
    if case['kind'] == 'scalar':
        check_scalar_payload(case['payload'], case['fmt'], case.get('ver', '3.0'))
    else:
        check_probe(case['payloads'], case['fmt'], case['ver'])
