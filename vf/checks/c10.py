"""C10 - version gating: a 2.0 grid never carries 3.0-only data, in memory or on the wire."""
import itertools
import json

from .. import json_ref, model, zinc_ref
from ..core import Acc, Violation, run_hypothesis, shard_seed, describe_exc

PROPERTY = 'C10'
RULE = ('histories of grid construction and mutation (constructor metadata/columns, metadata store/append/extend, column-'
        'metadata store/add_item, append, insert, extend, +=, item assignment, and the two bypass paths: mutating a stored row '
        'dict, assigning a plain dict as column metadata) with values of every kind, the 3.0-only kinds NA/list/dict/nested '
        'grid/XStr directly or nested inside a list/dict, under declared version none/1.0/2.0/2.5/3.0/3.0.0/4.0. Reference '
        'gating model: labels < 3.0 refuse, >= 3.0 accept, no label = auto-upgrade. After every step: (i) a validated store '
        'of a 3.0-only value either upgrades an unlabelled grid to >= 3.0, or raises ValueError leaving the grid unchanged, or '
        'is stored; (ii) if the grid holds 3.0-only data under a refusing label both writers raise ValueError, otherwise both '
        'succeed and hszinc reads the output back to the same content; (iii) the same content rendered by the independent '
        'writers under that label is rejected by both hszinc readers iff the label refuses; (iv) grid, ZINC writer, JSON '
        'writer, ZINC reader, JSON reader decide alike per (label, kind). Exhaustive: label x entry path x kind x '
        '{direct, nested} and all histories of depth <= 2 (quick) / 3 (thorough) over that alphabet; Hypothesis histories. '
        'Non-trivial = history stores at least one 3.0-only value; distinct by case.')
ASSUMPTIONS = ['Bin values are not generated (their spelling is version dependent; not a 3.0-only kind)',
               'only data reachable by the writers counts (grid metadata, column metadata, cells of declared columns)',
               'nested grids are internally consistent (a 3.0 inner grid with scalar cells)',
               'for extend/+= a single row is passed (rows before a refused row may stay, as with a list)']
FEATURES = {'ver.between-2-and-3': 'for a non-official version strictly between 2.0 and 3.0 (e.g. 2.5) the Grid and the ZINC '
                                   'reader accept 3.0-only data while both writers and the JSON reader refuse it'}
EXHAUSTIVE_CLAIM = True

VERSIONS = [None, '2.0', '3.0', '2.5', '3.0.0', '1.0', '4.0', '2.0.1', '2.0a', '2.0.0', '2']
INNER = ['grid', '3.0', [], [['x', []]], [[['x', ['num', 1.0]]]]]
V3_VALUES = {
    'na': ['na'], 'list': ['list', [['num', 1.0]]], 'dict': ['dict', [['k', ['str', 'v']]]], 'grid': INNER,
    'xstr': ['xstr', 'Foo', 'bar'],
}
# instances of subclasses of the container types are the same kinds of value
V3_SUBCLASS = {'dict': ['py', 'OrderedDict'], 'list': ['py', 'ListSubclass'], 'grid': ['py', 'GridSubclass'],
               'na': ['py', 'defaultdict'], 'xstr': ['py', 'XStrSubclass']}
V3_NESTED = {
    'na': ['list', [['na']]], 'list': ['dict', [['k', ['list', []]]]], 'dict': ['list', [['dict', []]]],
    'grid': ['list', [INNER]], 'xstr': ['dict', [['k', ['xstr', 'hex', 'ff']]]],
}
V2_VALUES = [['num', 1.0], ['str', 's'], ['marker'], ['ref', 'r', None], ['qty', 2.0, 'kW'], ['bool', True], ['remove'],
             ['uri', 'u'], ['date', 2020, 1, 1], ['coord', 1.0, 2.0]]
PATHS = ['ctor_meta', 'ctor_colmeta', 'meta_set', 'meta_append', 'meta_extend', 'colmeta_set', 'colmeta_add',
         'append', 'insert', 'extend', 'iadd', 'setitem', 'extend_grid', 'iadd_grid']
BYPASS = ['bypass_row', 'bypass_col']
DERIVE = ['derive_slice', 'derive_filter']


def refuses(label):
    """reference decision for a declared label"""
    if label in ('3.0', '3.0.0', '4.0'):
        return False
    if label in ('2.0', '1.0', '2.0.0', '2'):
        return True
    if label in ('2.5', '2.0.1', '2.0a'):
        return None     # free, but must be the same at all five decision points
    raise ValueError(label)


class ListSubclass(list):
    pass


def py_value(name):
    import collections
    import hszinc
    if name == 'OrderedDict':
        return collections.OrderedDict([('k', 'v')])
    if name == 'defaultdict':
        d = collections.defaultdict(list)
        d['k'] = 'v'
        return d
    if name == 'ListSubclass':
        return ListSubclass([1.0])
    if name == 'XStrSubclass':
        return type('XStrSubclass', (hszinc.XStr,), {})('Foo', 'bar')
    if name == 'GridSubclass':
        g = type('GridSubclass', (hszinc.Grid,), {})(version='3.0')
        g.column['x'] = {}
        g.append({'x': 1.0})
        return g
    raise ValueError(name)


def build_value(m):
    if m[0] == 'py':
        return py_value(m[1])
    return model.from_model(m)


def is_v3(m):
    if m[0] == 'py':
        return True
    return any(k in model.V3_ONLY for _, k in model.kinds(m))


def content_has_v3(gm):
    for _, v in gm[2]:
        if is_v3(v):
            return True
    for _, cm in gm[3]:
        for _, v in cm:
            if is_v3(v):
                return True
    names = set(c[0] for c in gm[3])
    for r in gm[4]:
        for c, v in r:
            if c in names and is_v3(v):
                return True
    return False


def build(case):
    """returns (grid or None, outcome) applying the constructor part of the case"""
    import hszinc
    v = case['version']
    meta = dict((k, build_value(x)) for k, x in case.get('ctor_meta', []))
    cols = [('a', [(k, build_value(x)) for k, x in case.get('ctor_colmeta', [])]), ('b', [])]
    try:
        g = hszinc.Grid(version=v, metadata=meta, columns=cols)
    except ValueError:
        return None, 'ValueError'
    return g, 'ok'


def apply_op(g, op):
    import hszinc
    kind = op[0]
    if kind == 'derive_slice':
        return g[:]
    if kind == 'derive_filter':
        return g.filter('not zzNoSuchTag')
    rowops = ('append', 'insert', 'extend', 'iadd', 'setitem', 'extend_grid', 'iadd_grid')
    val = build_value(op[-1]) if kind not in rowops else None
    row = dict((c, build_value(x)) for c, x in op[-1]) if val is None else None
    if kind == 'meta_set':
        g.metadata[op[1]] = val
    elif kind == 'meta_append':
        g.metadata.append(op[1], val)
    elif kind == 'meta_extend':
        g.metadata.extend({op[1]: val})
    elif kind == 'colmeta_set':
        g.column[op[1]][op[2]] = val
    elif kind == 'colmeta_add':
        g.column[op[1]].add_item(op[2], val, index=0)
    elif kind == 'append':
        g.append(row)
    elif kind == 'insert':
        g.insert(0, row)
    elif kind == 'extend':
        g.extend([row])
    elif kind == 'iadd':
        g += [row]
    elif kind in ('extend_grid', 'iadd_grid'):
        # the rows come from another grid (labelled 3.0, so it may hold anything)
        other = hszinc.Grid(version='3.0')
        other.column['a'] = {}
        other.column['b'] = {}
        other.append(row)
        if kind == 'extend_grid':
            g.extend(other)
        else:
            g += other
    elif kind == 'setitem':
        if len(g) == 0:
            g.append({'a': 0})
        g[0] = row
    elif kind == 'bypass_row':
        if len(g) == 0:
            g.append({'a': 0})
        g[0][op[1]] = val
    elif kind == 'bypass_col':
        g.column['b'] = {op[1]: val}
    else:
        raise ValueError(op)


def op_value_models(op):
    if op[0] in DERIVE:
        return []
    if op[0] in ('append', 'insert', 'extend', 'iadd', 'setitem', 'extend_grid', 'iadd_grid'):
        return [x for _, x in op[-1]]
    return [op[-1]]


def decide_writers_readers(g, case, step, excl, decisions=None):
    """(ii) and (iii) on the current grid state"""
    import hszinc
    from hszinc.zincparser import ZincParseException
    gm = model.grid_to_model(g)
    label = gm[1]
    holds3 = content_has_v3(gm)
    ref = refuses(label)
    shown = dict(case, step=step, content=gm)
    if ref is None and 'ver.between-2-and-3' in excl:
        return
    outs = {}
    for fmt, mode in (('zinc', hszinc.MODE_ZINC), ('json', hszinc.MODE_JSON)):
        try:
            outs[fmt] = ('ok', hszinc.dump(g, mode=mode))
        except ValueError as e:
            outs[fmt] = ('ValueError', str(e))
        except Exception as e:  # noqa
            raise Violation('writer-raises', shown, '%s writer raised %s' % (fmt, describe_exc(e)), (fmt,))
    for fmt in ('zinc', 'json'):
        got_refuse = outs[fmt][0] != 'ok'
        if not holds3:
            if got_refuse:
                raise Violation('writer-refuses-legal-grid', shown, '%s writer raised ValueError for a grid without 3.0-only data: %s' % (fmt, outs[fmt][1]), (fmt,))
            continue
        if ref is None:
            continue
        if ref and not got_refuse:
            raise Violation('writer-emits-3.0-data-under-old-label', shown,
                            '%s writer emitted 3.0-only data under ver %s: %r' % (fmt, label, outs[fmt][1][:300]), (fmt,))
        if not ref and got_refuse:
            raise Violation('writer-refuses-3.0-data-under-3.0-label', shown, '%s writer: %s' % (fmt, outs[fmt][1]), (fmt,))
    if holds3 and ref is None and outs['zinc'][0] != outs['json'][0]:
        raise Violation('decisions-differ', shown, 'ZINC writer %s, JSON writer %s for label %s' % (outs['zinc'][0], outs['json'][0], label))
    # output that was produced must be readable by hszinc and give the same content
    for fmt, mode in (('zinc', hszinc.MODE_ZINC), ('json', hszinc.MODE_JSON)):
        if outs[fmt][0] == 'ok':
            try:
                back = hszinc.parse(outs[fmt][1], mode=mode)
            except Exception as e:  # noqa
                raise Violation('own-output-unreadable', shown, '%s: %s | %r' % (fmt, describe_exc(e), outs[fmt][1][:300]), (fmt,))
            d = model.diff(model.normalise(gm), model.to_model(back), tol=True, dt_by_instant=True)
            if d:
                raise Violation('own-output-differs', shown, '%s: %s' % (fmt, d), (fmt,))
    # (iii) readers on independently written documents under the same label
    ztxt, _ = zinc_ref.write_document([gm])
    jobj, _ = json_ref.write_document([gm])
    rd = {}
    try:
        hszinc.parse(ztxt, mode=hszinc.MODE_ZINC)
        rd['zinc'] = 'ok'
    except ZincParseException:
        rd['zinc'] = 'rejected'
    except Exception as e:  # noqa
        raise Violation('reader-raises', dict(shown, text=ztxt), 'ZINC reader raised %s' % describe_exc(e))
    try:
        hszinc.parse(json.dumps(jobj), mode=hszinc.MODE_JSON)
        rd['json'] = 'ok'
    except ValueError:
        rd['json'] = 'rejected'
    except Exception as e:  # noqa
        raise Violation('reader-raises', dict(shown, text=json.dumps(jobj)), 'JSON reader raised %s' % describe_exc(e))
    for fmt in ('zinc', 'json'):
        if not holds3:
            if rd[fmt] != 'ok':
                raise Violation('reader-rejects-legal-document', dict(shown, text=ztxt if fmt == 'zinc' else json.dumps(jobj)),
                                '%s reader rejected a document without 3.0-only data' % fmt, (fmt,))
        elif ref is True and rd[fmt] == 'ok':
            raise Violation('reader-accepts-3.0-data-under-old-label', dict(shown, text=ztxt if fmt == 'zinc' else json.dumps(jobj)),
                            '%s reader accepted 3.0-only data labelled ver %s' % (fmt, label), (fmt,))
        elif ref is False and rd[fmt] != 'ok':
            raise Violation('reader-rejects-3.0-data-under-3.0-label', dict(shown, text=ztxt if fmt == 'zinc' else json.dumps(jobj)),
                            '%s reader rejected 3.0 data labelled ver %s' % (fmt, label), (fmt,))
    if holds3:
        dec = {'zinc-writer': outs['zinc'][0] == 'ok', 'json-writer': outs['json'][0] == 'ok',
               'zinc-reader': rd['zinc'] == 'ok', 'json-reader': rd['json'] == 'ok'}
        if decisions is not None:
            decisions.update(dec)
        if len(set(dec.values())) != 1:
            raise Violation('decisions-differ', shown, 'label %s: %r' % (label, dec), (label,))


def check_history(case, excl=frozenset()):
    """case = {'version', 'ctor_meta', 'ctor_colmeta', 'ops'}; returns True if a 3.0-only value was involved"""
    v = case['version']
    ref = refuses(v) if v is not None else None
    if ref is None and v is not None and 'ver.between-2-and-3' in excl:
        return None
    ctor_vals = [x for _, x in case.get('ctor_meta', [])] + [x for _, x in case.get('ctor_colmeta', [])]
    ctor_v3 = any(is_v3(x) for x in ctor_vals)
    g, outcome = build(case)
    grid_decision = None
    used_v3 = ctor_v3
    if ctor_v3 and v is not None:
        grid_decision = outcome == 'ok'
        if ref is True and outcome == 'ok':
            raise Violation('grid-accepts-3.0-data-under-old-label', dict(case, step='ctor'),
                            'Grid(version=%s, ...) accepted a 3.0-only value' % v, ('ctor',))
        if ref is False and outcome != 'ok':
            raise Violation('grid-refuses-3.0-data-under-3.0-label', dict(case, step='ctor'), 'constructor raised ValueError', ('ctor',))
    elif outcome != 'ok':
        raise Violation('grid-refuses-legal-value', dict(case, step='ctor'), 'constructor raised ValueError without 3.0-only data')
    if g is None:
        return used_v3
    if v is None and ctor_v3 and not ver_ge3(str(g.version)):
        raise Violation('no-auto-upgrade', dict(case, step='ctor'), 'unlabelled grid holds 3.0-only data but reports %s' % g.version, ('ctor',))
    decisions = {}
    sources = []
    bypassed = False
    decide_writers_readers(g, case, 'ctor', excl, decisions)
    if grid_decision is not None and decisions and decisions.get('zinc-writer') != grid_decision:
        raise Violation('decisions-differ', dict(case, step='ctor'), 'grid accepted=%r but wire decisions %r' % (grid_decision, decisions))
    for step, op in enumerate(case['ops']):
        before = model.grid_to_model(g)
        vals = op_value_models(op)
        v3 = any(is_v3(x) for x in vals)
        used_v3 = used_v3 or v3
        bypass = op[0] in BYPASS
        try:
            derived = apply_op(g, op)
            outcome = 'ok'
        except ValueError:
            outcome = 'ValueError'
        except Exception as e:  # noqa
            raise Violation('mutator-raises', dict(case, step=step), '%r raised %s' % (op[0], describe_exc(e)), (op[0],))
        bypassed = bypassed or (bypass and v3 and outcome == 'ok')
        if op[0] in DERIVE and outcome == 'ok':
            # a grid derived by slicing/filtering carries the version of its source as an explicit label; the
            # history continues on the derived grid, the source must not change any more
            source, source_model = g, model.grid_to_model(g)
            g = derived
            v = str(g.version)
            ref = refuses(v)
            if ref is None and 'ver.between-2-and-3' in excl:
                return used_v3
            sources.append((source, source_model))
            dm = model.grid_to_model(g)
            if not bypassed and content_has_v3(dm) and refuses(dm[1]) is True:
                raise Violation('derived-grid-mislabelled', dict(case, step=step),
                                'the grid derived by %s is labelled %s but carries 3.0-only data (its source was %s)' % (
                                    op[0], dm[1], source_model[1]), (op[0],))
        after = model.grid_to_model(g)
        for sg, sm in sources:
            # (rows are shared between a grid and its slices by design; the label of the source must not move)
            if str(sg.version) != sm[1]:
                raise Violation('source-grid-relabelled', dict(case, step=step),
                                'an operation on a derived grid changed the version of its source from %s to %s' % (sm[1], sg.version), (op[0],))
        grid_decision = None
        if op[0] in DERIVE and outcome != 'ok':
            # deriving re-validates the content: refusing is fine iff the source held 3.0-only data (put there through a
            # bypass path) under a label that refuses it
            if content_has_v3(before) and (refuses(before[1]) is not False):
                return used_v3
            raise Violation('grid-refuses-legal-value', dict(case, step=step), '%r raised ValueError although the grid is consistent' % op[0], (op[0],))
        if bypass and v3 and outcome != 'ok' and v is not None and ref is not False:
            # a path that is not validated today may be validated tomorrow: refusing a 3.0-only value under a label
            # below 3.0 at the grid already is the gate the property asks for (the grid must be unchanged, see below)
            pass
        elif bypass or not v3:
            if outcome != 'ok':
                raise Violation('grid-refuses-legal-value', dict(case, step=step), '%r raised ValueError for a 2.0-legal value' % op[0], (op[0],))
        elif v is None:
            if outcome != 'ok':
                raise Violation('unlabelled-grid-refuses', dict(case, step=step), 'unlabelled grid refused a 3.0-only value via %s' % op[0], (op[0],))
            if not ver_ge3(after[1]):
                raise Violation('no-auto-upgrade', dict(case, step=step),
                                'unlabelled grid stored a 3.0-only value via %s but reports version %s' % (op[0], after[1]), (op[0],))
        else:
            grid_decision = outcome == 'ok'
            if ref is True and outcome == 'ok':
                raise Violation('grid-accepts-3.0-data-under-old-label', dict(case, step=step),
                                'grid labelled %s accepted a 3.0-only value via %s' % (v, op[0]), (op[0],))
            if ref is False and outcome != 'ok':
                raise Violation('grid-refuses-3.0-data-under-3.0-label', dict(case, step=step), 'via %s' % op[0], (op[0],))
        if outcome != 'ok' and op[0] not in DERIVE:
            d = model.diff(before, after)
            if d and not (op[0] == 'setitem' and len(before[4]) == 0):
                raise Violation('refused-value-stored', dict(case, step=step), 'after the refused %s the grid changed: %s' % (op[0], d), (op[0],))
        elif not bypass and op[0] not in DERIVE and v is not None and after[1] != before[1]:
            raise Violation('label-changed', dict(case, step=step), 'declared version %s became %s' % (before[1], after[1]))
        decisions = {}
        decide_writers_readers(g, case, step, excl, decisions)
        if grid_decision is not None and decisions and any(d != grid_decision for d in decisions.values()):
            raise Violation('decisions-differ', dict(case, step=step),
                            'label %s: grid accepted=%r, wire decisions %r' % (v, grid_decision, decisions), (str(v),))
    return used_v3


def ver_ge3(s):
    return zinc_ref.ver_ge3(s)


def nested_old_label_documents():
    """(text or object, format): a 3.0 document whose nested grid is labelled 2.0 but holds 3.0-only data"""
    for kind in sorted(V3_VALUES):
        if kind == 'grid':
            continue
        inner = ['grid', '2.0', [], [['x', []]], [[['x', V3_VALUES[kind]]]]]
        inner_meta = ['grid', '2.0', [['m', V3_VALUES[kind]]], [['x', []]], []]
        for bad in (inner, inner_meta):
            for outer in (['grid', '3.0', [], [['a', []]], [[['a', bad]]]], ['grid', '3.0', [['gm', bad]], [['a', []]], []],
                          ['grid', '3.0', [], [['a', []]], [[['a', ['list', [bad]]]]]]):
                yield kind, outer


def check_nested_old_label(kind, outer):
    import hszinc
    from hszinc.zincparser import ZincParseException
    case = {'nested_old_label': outer}
    ztxt, _ = zinc_ref.write_document([outer])
    jobj, _ = json_ref.write_document([outer])
    try:
        hszinc.parse(ztxt, mode=hszinc.MODE_ZINC)
        raise Violation('reader-accepts-3.0-data-under-old-label', dict(case, text=ztxt),
                        'ZINC reader accepted a nested grid labelled 2.0 that holds %s' % kind, ('zinc', 'nested'))
    except ZincParseException:
        pass
    try:
        hszinc.parse(json.dumps(jobj), mode=hszinc.MODE_JSON)
        raise Violation('reader-accepts-3.0-data-under-old-label', dict(case, text=json.dumps(jobj)),
                        'JSON reader accepted a nested grid labelled 2.0 that holds %s' % kind, ('json', 'nested'))
    except ValueError:
        pass


def single_op_cases():
    """label x entry path x kind x {direct, nested}"""
    for v in VERSIONS:
        for kind in sorted(V3_VALUES):
            for nested in (False, True, 'subclass'):
                val = V3_SUBCLASS[kind] if nested == 'subclass' else (V3_NESTED if nested else V3_VALUES)[kind]
                for path in PATHS + BYPASS:
                    yield make_case(v, path, val)
        for val in V2_VALUES[:4]:
            for path in PATHS:
                yield make_case(v, path, val)


def make_case(v, path, val, more=()):
    case = {'version': v, 'ctor_meta': [], 'ctor_colmeta': [], 'ops': []}
    add_op(case, path, val)
    for p, x in more:
        add_op(case, p, x)
    return case


def add_op(case, path, val):
    if path == 'ctor_meta':
        case['ctor_meta'] = case['ctor_meta'] + [['cm%d' % len(case['ctor_meta']), val]]
    elif path == 'ctor_colmeta':
        case['ctor_colmeta'] = case['ctor_colmeta'] + [['cc%d' % len(case['ctor_colmeta']), val]]
    elif path in ('meta_set', 'meta_append', 'meta_extend'):
        # one key per path, so that a later op of the same path overwrites an existing tag
        case['ops'].append([path, 'm' + path[5:6], val])
    elif path in ('colmeta_set', 'colmeta_add'):
        case['ops'].append([path, 'a', 'k' + path[8:9], val])
    elif path in ('append', 'insert', 'extend', 'iadd', 'setitem', 'extend_grid', 'iadd_grid'):
        case['ops'].append([path, [['a', val], ['b', ['num', 7.0]]]])
    elif path == 'bypass_row':
        case['ops'].append([path, 'a', val])
    elif path == 'bypass_col':
        case['ops'].append([path, 'bk', val])
    elif path in DERIVE:
        case['ops'].append([path])
    else:
        raise ValueError(path)


def plan(tier, seed, excl):
    q = tier == 'quick'
    t = [('single', {})]
    t += [('pairs', {'version': i, 'shard': j, 'of': 2}) for i in range(len(VERSIONS)) for j in range(2)]
    if not q:
        t += [('triples', {'version': i, 'shard': j, 'of': 8}) for i in range(len(VERSIONS)) for j in range(8)]
    t += [('machine', {'shard': i, 'n': 150 if q else 4000}) for i in range(8)]
    return t


def alphabet():
    vals = [V3_VALUES['na'], V3_VALUES['xstr'], V3_NESTED['grid'], V2_VALUES[0]]
    paths = ['ctor_meta', 'meta_set', 'colmeta_set', 'append', 'setitem', 'iadd', 'bypass_row', 'bypass_col', 'extend_grid']
    return [(p, x) for p in paths for x in vals] + [('derive_slice', None), ('derive_filter', None)]


def run(part, args, env):
    acc = Acc(part)
    excl = frozenset(env['excl'])

    def one(case):
        try:
            r = check_history(case, excl)
        except Violation as v:
            acc.violation(v)
            return None
        if r is None:
            acc.excluded['ver.between-2-and-3'] += 1
        return r
    if part == 'single':
        n = nt = 0
        for case in single_op_cases():
            r = one(case)
            if r is not None:
                n += 1
                nt += bool(r)
                if n % 151 == 1:
                    acc.sample(case)
        for kind, outer in nested_old_label_documents():
            n += 1
            nt += 1
            try:
                check_nested_old_label(kind, outer)
            except Violation as v:
                acc.violation(v)
        acc.bulk(n, nt, labels=('single-op',))
        acc.exhaustive['label x entry path x 3.0-kind x {direct, nested} (+ 2.0-legal controls)'] = True
    elif part in ('pairs', 'triples'):
        v = VERSIONS[args['version']]
        al = alphabet()
        depth = 2 if part == 'pairs' else 3
        n = nt = 0
        for i, first in enumerate(al):
            if i % args['of'] != args['shard']:
                continue
            for rest in itertools.product(al, repeat=depth - 1):
                seq = [first] + list(rest)
                case = make_case(v, seq[0][0], seq[0][1], seq[1:])
                r = one(case)
                if r is not None:
                    n += 1
                    nt += bool(r)
                    if n % 997 == 1:
                        acc.sample(case)
                if len(acc.violations) >= acc.MAX_VIOL:
                    return acc
        acc.bulk(n, nt, labels=('history-depth-%d' % depth,))
        acc.exhaustive['all histories of depth %d over %d (path, value) ops per label' % (depth, len(al))] = True
    else:
        from hypothesis import strategies as st
        from .. import gen
        v3 = st.sampled_from(sorted(V3_VALUES)).flatmap(lambda k: st.sampled_from([V3_VALUES[k], V3_NESTED[k]]))
        val = st.one_of(v3, st.sampled_from(V2_VALUES), gen.scalars('2.0', uri_conformant=True, with_null=False),
                        gen.values('3.0', 1, uri_conformant=True, with_null=False).filter(lambda m: m[0] != 'grid' and not (m[0] == 'dt')))
        # Bin is not generated: its spelling differs between 2.0 and 3.0 and which one a label such as 2.5 uses
        # is not defined by the property (C10 is about the 3.0-only kinds)
        val = val.filter(lambda m: not any(k == 'bin' for _, k in model.kinds(m)))
        step = st.tuples(st.sampled_from(PATHS + BYPASS), val) | st.sampled_from(DERIVE).map(lambda d: (d, None))
        strat = st.tuples(st.sampled_from(VERSIONS), st.lists(step, min_size=1, max_size=6))

        def body(t):
            v, steps = t
            case = make_case(v, steps[0][0], steps[0][1], steps[1:])
            r = check_history(case, excl)
            if r is None:
                acc.excluded['ver.between-2-and-3'] += 1
                return
            acc.case(case, bool(r), labels=('machine', 'version:%s' % v))
            if acc.want_sample() and len(repr(case)) < 900:
                acc.sample(case)
        run_hypothesis(acc, body, strat, args['n'], shard_seed(env['seed'], PROPERTY, args['shard']))
    return acc


def replay(stage, case):
    if 'nested_old_label' in case:
        return check_nested_old_label('3.0-only data', case['nested_old_label'])
    case = dict(case)
    for k in ('step', 'content', 'text'):
        case.pop(k, None)
    check_history(case)
