"""C16 - ordered metadata maps keep dict content and documented order under every history."""
import itertools

from ..core import Acc, Violation, run_hypothesis, shard_seed, describe_exc

PROPERTY = 'C16'
RULE = ('histories of SortableDict / MetadataObject operations (store, add_item with index / pos_key / after / replace=False / '
        'both, del, pop, pop with default, pop_at, sort, reverse, append, extend with list/dict/SortableDict, setdefault, '
        'clear) replayed in lock-step on the real object and on a reference ordered-map model (list of pairs) of the '
        'documented semantics; after every history: same outcome (value or exception type) per step, unique keys, len, '
        'items(), at(), value_at(), index(), membership; rejected operations change nothing. Exhaustive: every history up to '
        'the depth bound from each of 5 initial maps over 3-4 keys and all position arguments; Hypothesis: 40-step histories over 6 keys and 30-step histories over 48 keys from initial maps of 0-48 entries with extend batches of up to 40 pairs (repeated keys included), '
        'order also observed through hszinc.dump of a grid carrying the map. Non-trivial = history contains a relocation '
        '(existing key with a position) or a rejected operation; distinct by (class, initial map, op list).')
ASSUMPTIONS = ['relocation by numeric index is modelled as remove-then-insert at that index (doc-string is silent; the reading '
               'the code implements)', 'pos_key equal to the key being added is not generated (undefined)',
               'index arguments are non-negative (as the property says)']
FEATURES = {'sdict.relocate-forward': 'relocating a key that sits before the target key lands one slot late'}
EXHAUSTIVE_CLAIM = True

KEYS4 = ['a', 'b', 'c', 'd']


def op_alphabet(keys, nmax):
    ops = []
    for k in keys:
        ops.append(['set', k])
        for i in range(nmax + 1):
            for after in (False, True):
                ops.append(['add', k, {'index': i, 'after': after}])
        for p in keys:
            if p != k:
                for after in (False, True):
                    ops.append(['add', k, {'pos_key': p, 'after': after}])
        ops.append(['add', k, {'replace': False}])
        ops.append(['add', k, {'index': 0, 'replace': False}])
        ops.append(['add', k, {'pos_key': keys[(keys.index(k) + 1) % len(keys)], 'after': True, 'replace': False}])
        ops.append(['del', k])
        ops.append(['append', k])
        ops.append(['appendv', k, False])
        ops.append(['setnone', k])
        ops.append(['add_self', k, False])
        ops.append(['add', k, {'value': 'BAD', 'index': 0}])
        ops.append(['add', k, {'value': 'BAD'}])
    ops.append(['add', keys[0], {'index': 0, 'pos_key': keys[-1]}])
    ops.append(['add', keys[0], {'pos_key': 'zz'}])
    for i in range(nmax + 1):
        ops.append(['pop_at', i])
    ops.append(['sort'])
    ops.append(['sortkr'])
    ops.append(['reverse'])
    ops.append(['extend', [keys[-1], keys[0]], 'dict', True])
    ops.append(['extend', ['e', 'e', keys[0]], 'list', True])
    return ops


def new_obj(cls, initial):
    from hszinc.sortabledict import SortableDict
    from hszinc.metadata import MetadataObject
    if cls == 'mv':
        # a map with a value validator, as Grid installs on its metadata: it refuses the value 'BAD'
        def validate(v):
            if v == 'BAD':
                raise ValueError('value refused by the validator')
        o = MetadataObject(validate_fn=validate)
    else:
        o = {'sd': SortableDict, 'mo': MetadataObject}[cls]()
    for i, k in enumerate(initial):
        o[k] = 'i%d' % i
    return o


def apply_model(lst, op, step):
    """lst: list of [key, value]; returns outcome; mutates lst only on success."""
    val = 'v%d' % step
    keys = [k for k, _ in lst]
    kind = op[0]
    if kind == 'set':
        return apply_model(lst, ['add', op[1], {}], step)
    if kind == 'add_self':
        # positioning a key relative to itself is not defined by the documentation: either it is rejected (and then
        # nothing may change) or the key set stays what it was and the key takes the new value
        return ('either', None)
    if kind == 'setnone':       # a key whose value is None is still a key
        return apply_model(lst, ['add', op[1], {'value': None}], step)
    if kind == 'add':
        k, kw = op[1], op[2]
        index, pos_key = kw.get('index'), kw.get('pos_key')
        after, replace = kw.get('after', False), kw.get('replace', True)
        if 'value' in kw:
            val = kw['value']
        if val == 'BAD':
            return ('raises', 'ValueError')      # refused by the validator before anything else happens
        if index is not None and pos_key is not None:
            return ('raises', 'ValueError')
        if pos_key is not None and pos_key not in keys:
            return ('raises', 'KeyError')
        if k in keys and not replace:
            return ('raises', 'KeyError')
        positioned = index is not None or pos_key is not None
        if k in keys and not positioned:
            lst[keys.index(k)][1] = val
            return ('ok', None)
        if k in keys:
            del lst[keys.index(k)]
            keys = [x for x, _ in lst]
        if pos_key is not None:
            at = keys.index(pos_key) + (1 if after else 0)
            lst.insert(at, [k, val])
        elif index is not None:
            lst.insert(index + (1 if after else 0), [k, val])
        else:
            lst.append([k, val])
        return ('ok', None)
    if kind == 'del':
        if op[1] not in keys:
            return ('raises', 'KeyError')
        del lst[keys.index(op[1])]
        return ('ok', None)
    if kind == 'pop':
        if op[1] not in keys:
            return ('raises', 'KeyError')
        return ('ok', lst.pop(keys.index(op[1]))[1])
    if kind == 'popd':
        if op[1] not in keys:
            return ('ok', 'DEFAULT')
        return ('ok', lst.pop(keys.index(op[1]))[1])
    if kind == 'pop_at':
        if not (-len(lst) <= op[1] < len(lst)):
            return ('raises', 'IndexError')
        return ('ok', lst.pop(op[1])[1])
    if kind == 'sort':
        lst.sort(key=lambda kv: kv[0])
        return ('ok', None)
    if kind == 'sortkr':        # sort(key=len, reverse=True): every key ties, a stable sort keeps the order
        lst.sort(key=lambda kv: len(kv[0]), reverse=True)
        return ('ok', None)
    if kind == 'reverse':
        lst.reverse()
        return ('ok', None)
    if kind == 'append':      # MetadataObject.append(key) -> MARKER
        return apply_model(lst, ['add', op[1], {'value': 'MARKER'}], step)
    if kind == 'appendv':
        return apply_model(lst, ['add', op[1], {'replace': op[2]}], step)
    if kind == 'extend':
        # items applied one by one; generated so that a refusal can only hit the first item
        for j, k in enumerate(op[1]):
            r = apply_model(lst, ['add', k, {'value': '%s.%d' % (val, j), 'replace': op[3]}], step)
            if r[0] == 'raises':
                return r
        return ('ok', None)
    if kind == 'setdefault':
        if op[1] in keys:
            return ('ok', lst[keys.index(op[1])][1])
        lst.append([op[1], val])
        return ('ok', val)
    if kind == 'clear':
        del lst[:]
        return ('ok', None)
    raise ValueError(op)


def apply_real(o, op, step):
    import hszinc
    from hszinc.sortabledict import SortableDict
    val = 'v%d' % step
    kind = op[0]
    try:
        if kind == 'set':
            o[op[1]] = val
            r = None
        elif kind == 'setnone':
            o[op[1]] = None
            r = None
        elif kind == 'add_self':
            r = o.add_item(op[1], val, pos_key=op[1], after=op[2])
        elif kind == 'add':
            kw = dict(op[2])
            v = kw.pop('value', val)
            r = o.add_item(op[1], v, **kw)
        elif kind == 'del':
            del o[op[1]]
            r = None
        elif kind == 'pop':
            r = o.pop(op[1])
        elif kind == 'popd':
            r = o.pop(op[1], 'DEFAULT')
        elif kind == 'pop_at':
            r = o.pop_at(op[1])
        elif kind == 'sort':
            r = o.sort()
        elif kind == 'sortkr':
            r = o.sort(key=len, reverse=True)
        elif kind == 'reverse':
            r = o.reverse()
        elif kind == 'append':
            r = o.append(op[1])
        elif kind == 'appendv':
            r = o.append(op[1], val, replace=op[2])
        elif kind == 'extend':
            items = [(k, '%s.%d' % (val, j)) for j, k in enumerate(op[1])]
            if op[2] == 'dict':
                items = dict(items)
            elif op[2] == 'sd':
                items = SortableDict(items)
            r = o.extend(items, replace=op[3])
        elif kind == 'setdefault':
            r = o.setdefault(op[1], val)
        elif kind == 'clear':
            r = o.clear()
        else:
            raise ValueError(op)
    except (KeyError, ValueError, IndexError) as e:
        for base in ('KeyError', 'ValueError', 'IndexError'):       # the documented class; a subclass of it is as good
            if base in [c.__name__ for c in type(e).__mro__]:
                return ('raises', base)
    if r is hszinc.MARKER:
        r = 'MARKER'
    return ('ok', r)


def observe(o):
    import hszinc
    items = [[k, ('MARKER' if v is hszinc.MARKER else v)] for k, v in o.items()]
    return items


def check_history(case, excl=frozenset()):
    """case = {'cls': 'sd'|'mo', 'initial': [keys], 'ops': [op...]}; every step's outcome and the state after
    every step are compared."""
    import hszinc
    o = new_obj(case['cls'], case['initial'])
    lst = [[k, 'i%d' % i] for i, k in enumerate(case['initial'])]
    nontrivial = False
    for step, op in enumerate(case['ops']):
        before = [list(x) for x in lst]
        keys_before = [k for k, _ in lst]
        if 'sdict.relocate-forward' in excl and op[0] == 'add' and op[2].get('pos_key') in keys_before \
                and op[1] in keys_before and keys_before.index(op[1]) < keys_before.index(op[2]['pos_key']) \
                and op[2].get('replace', True):
            return None     # excluded history (counted by the caller)
        want = apply_model(lst, op, step)
        try:
            got = apply_real(o, op, step)
        except Exception as e:  # noqa
            raise Violation('step-raises', dict(case, step=step), 'op %r raised %s' % (op, describe_exc(e)), (op[0],))
        if want[0] == 'either':
            now = observe(o)
            if got[0] == 'raises':
                if now != before:
                    raise Violation('rejected-op-changed-state', dict(case, step=step),
                                    'op %r was rejected but items went %r -> %r' % (op, before, now), (op[0],))
            elif sorted(k for k, _ in now) != sorted(set([k for k, _ in before] + [op[1]])):
                raise Violation('state', dict(case, step=step), 'op %r changed the key set: %r -> %r' % (op, before, now), (op[0],))
            lst[:] = [list(x) for x in now]
            nontrivial = True
            continue
        if want != got:
            raise Violation('step-outcome', dict(case, step=step), 'op %r: model %r, real %r' % (op, want, got), (op[0],))
        if want[0] == 'raises':
            nontrivial = True
            if observe(o) != before:
                raise Violation('rejected-op-changed-state', dict(case, step=step),
                                'op %r was rejected but items went %r -> %r' % (op, before, observe(o)), (op[0],))
        if op[0] == 'add' and op[1] in keys_before and ('index' in op[2] or 'pos_key' in op[2]):
            nontrivial = True
        items = observe(o)
        if items != lst:
            raise Violation('state', dict(case, step=step), 'after %r: model %r, real %r' % (op, lst, items), (op[0],))
        keys = [k for k, _ in items]
        if len(set(keys)) != len(keys):
            raise Violation('duplicate-keys', dict(case, step=step), 'keys %r' % keys)
        if len(o) != len(lst) or list(o.keys()) != keys or list(iter(o)) != keys:
            raise Violation('len-or-iteration', dict(case, step=step), 'len %d keys %r iter %r, model %r' % (
                len(o), list(o.keys()), list(iter(o)), keys))
        for i, (k, v) in enumerate(lst):
            rv = o[k]
            rv = 'MARKER' if rv is hszinc.MARKER else rv
            if o.at(i) != k or o.index(k) != i or k not in o or rv != v:
                raise Violation('positional-access', dict(case, step=step), 'at(%d)=%r index(%r)=%r value %r (model %r)' % (
                    i, o.at(i), k, o.index(k), rv, v))
            va = o.value_at(i)
            if ('MARKER' if va is hszinc.MARKER else va) != v:
                raise Violation('positional-access', dict(case, step=step), 'value_at(%d)=%r model %r' % (i, va, v))
        if 'zz' in o:
            raise Violation('membership', dict(case, step=step), 'absent key reported present')
    return nontrivial


def check_dump_order(case):
    """order observed through the ZINC/JSON writers (MetadataObject as grid metadata)"""
    import hszinc
    import json
    g = hszinc.Grid(version='2.0')
    g.column['c'] = {}
    lst = [[k, 'i%d' % i] for i, k in enumerate(case['initial'])]
    for k, v in lst:
        g.metadata[k] = v
    for step, op in enumerate(case['ops']):
        r = apply_model(lst, op, step)
        apply_real(g.metadata, op, step)
        if r[0] == 'either':        # (outcome not defined by the documentation: follow the object)
            lst[:] = [list(x) for x in observe(g.metadata)]
    import re
    if not all(re.match(r'^[a-z][a-zA-Z0-9_]*$', k) for k, _ in lst):
        return      # (a key that is not a tag name cannot be written as ZINC at all)
    z = hszinc.dump(g)
    # the header is read by the independent ZINC reader: the order of the tags in the text is what counts, not its spelling
    from .. import zinc_ref
    try:
        grids = zinc_ref.read_document(z)[0]
        got = [[k, v] for k, v in grids[0][2]]
    except Exception as e:  # noqa
        raise Violation('dump-order', case, 'ZINC text %r is not readable: %s' % (z[:200], describe_exc(e)))
    want = [[k, ['marker'] if v == 'MARKER' else (['null'] if v is None else ['str', v])] for k, v in lst]
    if got != want:
        raise Violation('dump-order', case, 'ZINC header %r carries %r, model %r' % (z.split('\n')[0], got, want))
    j = json.loads(hszinc.dump(g, mode=hszinc.MODE_JSON))
    jk = [k for k in j['meta'] if k != 'ver']
    if sorted(jk) != sorted(k for k, _ in lst):
        raise Violation('dump-order', case, 'JSON meta keys %r, model %r' % (jk, [k for k, _ in lst]))


INITIALS = [[], ['a'], ['a', 'b'], ['a', 'b', 'c'], ['c', 'a', 'b'], ['a', 'b', 'c', 'd']]


def hist_strategy(keys, max_idx, max_batch, initials, max_ops):
    from hypothesis import strategies as st
    key = st.sampled_from(keys)
    idx = st.integers(0, max_idx)
    addkw = st.one_of(
        st.fixed_dictionaries({'index': idx, 'after': st.booleans()}),
        st.fixed_dictionaries({'pos_key': key | st.just('zz'), 'after': st.booleans()}),
        st.fixed_dictionaries({'replace': st.just(False)}),
        st.fixed_dictionaries({'pos_key': key, 'after': st.booleans(), 'replace': st.just(False)}),
        st.fixed_dictionaries({'index': idx, 'replace': st.booleans()}),
        st.fixed_dictionaries({'index': idx, 'pos_key': key}),
        st.just({}))
    op = st.one_of(
        key.map(lambda k: ['set', k]),
        st.tuples(key, addkw).filter(lambda t: t[1].get('pos_key') != t[0]).map(lambda t: ['add', t[0], t[1]]),
        key.map(lambda k: ['del', k]), key.map(lambda k: ['pop', k]), key.map(lambda k: ['setnone', k]), key.map(lambda k: ['popd', k]),
        st.integers(-2, max_idx).map(lambda i: ['pop_at', i]), st.just(['sort']), st.just(['reverse']),
        key.map(lambda k: ['append', k]), st.tuples(key, st.booleans()).map(lambda t: ['appendv', t[0], t[1]]),
        st.tuples(st.lists(key, min_size=1, max_size=3, unique=True), st.sampled_from(['list', 'dict', 'sd'])).map(
            lambda t: ['extend', t[0], t[1], True]),
        st.tuples(key, st.sampled_from(['list', 'dict', 'sd'])).map(lambda t: ['extend', [t[0]], t[1], False]),
        key.map(lambda k: ['setdefault', k]), st.just(['clear']), st.tuples(key, st.booleans()).map(lambda t: ['add_self', t[0], t[1]]),
        st.lists(key, min_size=2, max_size=max_batch).map(lambda ks: ['extend', ks, 'list', True]),
        st.lists(key, min_size=2, max_size=max_batch, unique=True).flatmap(lambda ks: st.sampled_from(['list', 'dict', 'sd']).map(lambda t: ['extend', ks, t, True])))
    hist = st.fixed_dictionaries({
        'cls': st.sampled_from(['mo', 'mv']), 'initial': st.sampled_from(initials), 'ops': st.lists(op, min_size=1, max_size=max_ops)})
    return hist


def plan(tier, seed, excl):
    q = tier == 'quick'
    t = []
    # exhaustive: (keys, depth) per tier
    for cls in ('sd', 'mo', 'mv'):
        for ii in range(len(INITIALS)):
            t.append(('enum', {'cls': cls, 'init': ii, 'nkeys': 4, 'depth': 2, 'shard': 0, 'of': 1}))
            for sh in range(4 if q else 8):
                t.append(('enum', {'cls': cls, 'init': ii, 'nkeys': 3 if q else 4, 'depth': 3, 'shard': sh, 'of': 4 if q else 8}))
    t += [('machine', {'shard': i, 'n': 300 if q else 6000}) for i in range(8)]
    t += [('machine-big', {'shard': i, 'n': 250 if q else 5000}) for i in range(8)]
    return t


def run(part, args, env):
    acc = Acc(part)
    excl = env['excl']
    if part == 'enum':
        init = INITIALS[args['init']]
        keys = KEYS4[:args['nkeys']]
        if any(k not in keys for k in init):
            keys = KEYS4
        alphabet = [op for op in op_alphabet(keys, len(keys)) if args['cls'] != 'sd' or op[0] not in ('append', 'appendv', 'extend')]
        if args['cls'] != 'mv':
            alphabet = [op for op in alphabet if not (op[0] == 'add' and op[2].get('value') == 'BAD')]
        n = nt = 0
        depth = args['depth']
        for idx, first in enumerate(alphabet):
            if idx % args['of'] != args['shard']:
                continue
            for rest in itertools.product(alphabet, repeat=depth - 1):
                ops = [first] + list(rest)
                case = {'cls': args['cls'], 'initial': init, 'ops': ops}
                try:
                    r = check_history(case, excl)
                except Violation as v:
                    acc.violation(v)
                    if len(acc.violations) >= acc.MAX_VIOL:
                        return acc
                    continue
                if r is None:
                    acc.excluded['sdict.relocate-forward'] += 1
                    continue
                n += 1
                nt += bool(r)
                if n % 20011 == 1:
                    acc.sample(case)
        acc.bulk(n, nt, labels=('enum:depth%d' % depth,))
        acc.exhaustive['histories depth<=%d over %d keys, %d ops, %d initial maps, both classes' % (
            depth, len(keys), len(alphabet), len(INITIALS))] = True
    else:
        from hypothesis import strategies as st
        if part == 'machine-big':
            keys = ['k%02d' % i for i in range(44)] + KEYS4
            hist = hist_strategy(keys, 70, 40, [keys[:n] for n in (0, 7, 8, 9, 15, 16, 17, 31, 32, 33, 48)] + [keys[:40][::-1]], 30)
        else:
            hist = hist_strategy(KEYS4 + ['e', ''], 6, 4, INITIALS + [['', 'a'], ['b', '', 'c']], 40)      # '' is a legal (falsy) key of a SortableDict

        def body(case):
            r = check_history(case, excl)
            if r is None:
                acc.excluded['sdict.relocate-forward'] += 1
                return
            acc.case(case, bool(r), labels=(part, 'len:%d' % (len(case['ops']) // 10 * 10), 'initial-size:%d' % len(case['initial'])))
            check_dump_order(case)
            if acc.want_sample() and len(case['ops']) < 12:
                acc.sample(case)
        run_hypothesis(acc, body, hist, args['n'], shard_seed(env['seed'], PROPERTY, args['shard'], *(['big'] if part == 'machine-big' else [])))
    return acc


def replay(stage, case):
    case = dict(case)
    case.pop('step', None)
    check_history(case)
    if stage == 'dump-order':
        check_dump_order(case)
