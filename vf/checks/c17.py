"""C17 - date-times keep instant, offset and zone through every zone and DST transition."""
import datetime
import json

from ..core import Acc, Violation, guarded, run_hypothesis, shard_seed, describe_exc

PROPERTY = 'C17'
RULE = ('part 1: for every mapped zone and every entry T of pytz\'s UTC transition table of that zone (quick: first 5 + last 14 '
        'per zone; thorough: all), each delta in {-1800,-1,0,+1,+1800} s and microsecond in {0,1,999999}: '
        'dt=(T+delta).astimezone(zone) is written by dump_scalar in ZINC and JSON and read back; the result must denote the '
        'same instant, have the same UTC offset, map to the same Haystack zone name, and the text must carry that name and '
        '- read by the harness\'s own ISO reader - that instant, offset and microsecond; a '
        'sample also goes through a one-cell grid. Map laws: get_tz_map/get_tz_rmap mutually inverse, timezone(name).zone == '
        'map[name], timezone_name(now-in-zone) == name for all names. Hypothesis: instants in years 2..9998 x zones. '
        'part 2: datetime.timezone(offset) for every whole-minute offset in [-14h,+14h] x a catalogue of local times, pytz '
        'alias zones outside the map, dateutil-free custom tzinfo: dump_scalar either returns text whose zone Z satisfies '
        'dt.astimezone(timezone(Z)).utcoffset() == dt.utcoffset() and whose instant equals dt, or raises ValueError; naive '
        'date-times give ValueError. Non-trivial = instant within 30 min of a tabulated transition, or a non-mapped tzinfo; '
        'distinct by (zone, instant, microsecond, format).')
ASSUMPTIONS = ['pytz\'s private transition table (_utc_transition_times) lists the transitions of a zone',
               'instants are restricted to years 2..9998 (astimezone overflow outside)']
FEATURES = {'tz.scan-invalid-time': 'the fallback zone scan leaks pytz Ambiguous/NonExistentTimeError for non-mapped tzinfo'}
EXHAUSTIVE_CLAIM = True

DELTAS = (-1800, -1, 0, 1, 1800)
MICROS = (0, 1, 999999)
MIN_DT = datetime.datetime(2, 1, 2)
MAX_DT = datetime.datetime(9998, 12, 30)


def zmap():
    from hszinc import zoneinfo
    return zoneinfo.get_tz_map()


def transitions(olson):
    import pytz
    tz = pytz.timezone(olson)
    return [t for t in getattr(tz, '_utc_transition_times', []) if t >= MIN_DT]


def _fmt(t):
    return t.strftime('%Y-%m-%dT%H:%M:%S') if t.year >= 1000 else '%04d' % t.year + t.strftime('-%m-%dT%H:%M:%S')


def _parse(s):
    d, t = s.split('T')
    y, mo, da = d.split('-')
    h, mi, se = t.split(':')
    return datetime.datetime(int(y), int(mo), int(da), int(h), int(mi), int(se))


_STAMP = None


def _read_stamp(iso):
    """an ISO 8601 stamp with numeric offset (or Z), read independently of the library: any number of fraction digits"""
    global _STAMP
    import re
    if _STAMP is None:
        _STAMP = re.compile(r'^(\d{4})-(\d\d)-(\d\d)T(\d\d):(\d\d):(\d\d)(?:\.(\d+))?(Z|[+-]\d\d:\d\d(?::\d\d)?)$')
    m = _STAMP.match(iso)
    if not m:
        return None
    y, mo, d, h, mi, se, frac, off = m.groups()
    frac = frac or ''
    if len(frac) > 6 and frac[6:].strip('0'):
        return None                 # finer than a microsecond: not what was written
    us = int((frac + '000000')[:6])
    if off == 'Z':
        delta = datetime.timedelta(0)
    else:
        parts = [int(x) for x in off[1:].split(':')]
        delta = datetime.timedelta(hours=parts[0], minutes=parts[1], seconds=parts[2] if len(parts) > 2 else 0)
        if off[0] == '-':
            delta = -delta
    try:
        return datetime.datetime(int(y), int(mo), int(d), int(h), int(mi), int(se), us, tzinfo=datetime.timezone(delta))
    except ValueError:
        return None


def check_mapped(case):
    """case = {'zone': haystack name, 'utc': 'YYYY-MM-DDTHH:MM:SS', 'us': int, 'fmt': 'zinc'|'json', 'grid': bool}"""
    import hszinc
    import pytz
    from hszinc import zoneinfo
    name = case['zone']
    mode = hszinc.MODE_ZINC if case['fmt'] == 'zinc' else hszinc.MODE_JSON
    olson = zmap()[name]
    tz = pytz.timezone(olson)
    inst = _parse(case['utc']).replace(microsecond=case['us'])
    dt = pytz.utc.localize(inst).astimezone(tz)
    tags = (case['fmt'],)
    if case.get('grid'):
        g = hszinc.Grid(version='2.0')
        g.column['ts'] = {}
        g.append({'ts': dt})
        txt = guarded('dump-raises', case, hszinc.dump, g, mode=mode)
        back = guarded('parse-raises', case, hszinc.parse, txt, mode=mode)[0]['ts']
        body = txt
    else:
        txt = guarded('dump-raises', case, hszinc.dump_scalar, dt, mode=mode)
        back = guarded('parse-raises', case, hszinc.parse_scalar, txt, mode=mode)
        body = txt
    if not isinstance(back, datetime.datetime) or back.tzinfo is None:
        raise Violation('kind', case, 'read back %r from %r' % (back, txt), tags)
    if back != dt:
        raise Violation('instant', case, 'wrote %s, read %s (text %r)' % (dt.isoformat(), back.isoformat(), txt), tags)
    if back.utcoffset() != dt.utcoffset():
        raise Violation('offset', case, 'offset %s became %s (text %r)' % (dt.utcoffset(), back.utcoffset(), txt), tags)
    if back.microsecond != dt.microsecond:
        raise Violation('instant', case, 'microsecond %d became %d' % (dt.microsecond, back.microsecond), tags)
    nm = guarded('timezone_name-raises', case, zoneinfo.timezone_name, back)
    if nm != name:
        raise Violation('zone-name', case, 'zone %s came back as %s (text %r)' % (name, nm, txt), tags)
    if getattr(back.tzinfo, 'zone', None) != olson:
        raise Violation('zone-name', case, 'tzinfo %r, expected zone %s' % (back.tzinfo, olson), tags)
    if not case.get('grid'):
        if not body.endswith(' ' + name):
            raise Violation('text-zone', case, 'text %r does not carry zone name %s' % (txt, name), tags)
        iso = body.split(' ')[0]
        if case['fmt'] == 'json':
            iso = iso[2:]
        stamp = _read_stamp(iso)
        if stamp is None or stamp != dt or stamp.utcoffset() != dt.utcoffset() or stamp.microsecond != dt.microsecond:
            raise Violation('text-iso', case, 'text %r does not carry %s' % (txt, dt.isoformat()), tags)


def odd_spellings(name):
    out = []
    for v in (name.upper(), name.lower(), name.swapcase(), name.title(), ' ' + name, name + ' '):
        if v != name and v not in out:
            out.append(v)
    return out


def check_after_odd_reads(case):
    """case = {'odd_reads': zone name, 'fmt': 'zinc'|'json'}.  Texts that spell the zone name differently (other letter
    case, stray blank) are offered to the reader first - whether it takes or refuses them is not the point - then the zone
    must still be written under its own name and read back to itself, in summer and in winter, and the two maps must
    still be inverse bijections."""
    import hszinc
    name, fmt = case['odd_reads'], case['fmt']
    mode = hszinc.MODE_ZINC if fmt == 'zinc' else hszinc.MODE_JSON
    for sp in odd_spellings(name):
        for stamp in ('2021-01-15T12:00:00+00:00', '2021-07-15T12:00:00Z'):
            txt = '%s %s' % (stamp, sp)
            try:
                hszinc.parse_scalar(('t:' + txt) if fmt == 'json' else txt, mode=mode)
            except Exception:      # noqa - an unknown spelling may be refused in any way
                pass
            try:
                hszinc.parse('ver:"2.0"\nts\n%s\n' % txt, mode=hszinc.MODE_ZINC)
            except Exception:      # noqa
                pass
    n = 0
    for utc in ('2021-01-15T12:00:00', '2021-07-15T12:00:00'):
        for grid in (False, True):
            c = {'zone': name, 'utc': utc, 'us': 0, 'fmt': fmt, 'grid': grid}
            try:
                check_mapped(c)
            except Violation as v:
                raise Violation(v.stage, dict(case, then=c), 'after reads of differently spelled zone names: ' + v.detail, v.tags)
            n += 1
    try:
        check_map_laws()
    except Violation as v:
        raise Violation(v.stage, case, 'after reads of differently spelled zone names: ' + v.detail, v.tags)
    return n


def check_map_laws():
    import pytz
    from hszinc import zoneinfo
    m, r = zoneinfo.get_tz_map(), zoneinfo.get_tz_rmap()
    case = {'laws': True}
    if len(set(m.values())) != len(m):
        raise Violation('map-bijective', case, 'two Haystack names map to one tz')
    if dict((v, k) for k, v in m.items()) != r or dict((v, k) for k, v in r.items()) != m:
        raise Violation('map-bijective', case, 'map and reverse map are not mutually inverse')
    now = datetime.datetime(2024, 6, 1, 12, 0, 0)
    for name, olson in sorted(m.items()):
        tz = guarded('timezone-raises', dict(case, zone=name), zoneinfo.timezone, name)
        if tz.zone != olson:
            raise Violation('map-timezone', dict(case, zone=name), 'timezone(%s).zone is %s, map says %s' % (name, tz.zone, olson))
        dt = pytz.utc.localize(now).astimezone(tz)
        nm = guarded('timezone_name-raises', dict(case, zone=name), zoneinfo.timezone_name, dt)
        if nm != name:
            raise Violation('map-name', dict(case, zone=name), 'timezone_name gives %s for %s' % (nm, name))
    for bad in ('Nowhere', 'US/Eastern', ''):
        try:
            zoneinfo.timezone(bad)
        except ValueError:
            continue
        except Exception as e:  # noqa
            raise Violation('timezone-raises', dict(case, zone=bad), 'raised %s instead of ValueError' % describe_exc(e))
        if bad not in m:
            raise Violation('map-unknown', dict(case, zone=bad), 'unknown zone accepted')
    return len(m)


class OddTz(datetime.tzinfo):
    """a non-pytz tzinfo with a DST-like rule (harness-owned, deterministic)"""

    def __init__(self, std_min, dst_min):
        self.std, self.dst = std_min, dst_min

    def utcoffset(self, dt):
        if dt is not None and 4 <= dt.month <= 9:
            return datetime.timedelta(minutes=self.dst)
        return datetime.timedelta(minutes=self.std)

    def dst(self, dt):
        return datetime.timedelta(0)

    def tzname(self, dt):
        return 'ODD'


LOCALS = ['2021-01-15T12:00:00', '2021-07-15T12:00:00', '2021-03-14T02:30:00', '2021-11-07T01:30:00',
          '2021-03-28T01:30:00', '2021-10-31T01:30:00', '2021-10-03T02:30:00', '2021-04-04T02:30:00',
          '2021-03-28T02:30:00', '2021-10-31T02:30:00', '1999-12-31T23:59:59', '2037-06-01T00:00:00',
          '1919-03-30T02:30:00']
ALIASES = ['US/Eastern', 'US/Pacific', 'Europe/Kyiv', 'Australia/ACT', 'Asia/Calcutta', 'America/Argentina/Buenos_Aires',
           'America/Indiana/Indianapolis', 'America/Indiana/Knox', 'America/Argentina/Salta', 'America/Kentucky/Monticello',
           'America/North_Dakota/Center', 'America/Indiana/Tell_City', 'Etc/GMT+5', 'Etc/UTC', 'GB', 'NZ', 'Europe/Belfast', 'Canada/Newfoundland']


def check_other(case):
    """case = {'tz': ['fixed', minutes] | ['alias', olson] | ['odd', std, dst] | ['naive'], 'local': iso, 'us': n, 'fmt'}"""
    import hszinc
    import pytz
    from hszinc import zoneinfo
    mode = hszinc.MODE_ZINC if case['fmt'] == 'zinc' else hszinc.MODE_JSON
    loc = _parse(case['local']).replace(microsecond=case.get('us', 0))
    spec = case['tz']
    tags = (case['fmt'], spec[0])
    if spec[0] == 'fixed':
        dt = loc.replace(tzinfo=datetime.timezone(datetime.timedelta(minutes=spec[1])))
    elif spec[0] == 'alias':
        tz = pytz.timezone(spec[1])
        dt = tz.localize(loc, is_dst=bool(case.get('is_dst', False)))
    elif spec[0] == 'odd':
        dt = loc.replace(tzinfo=OddTz(spec[1], spec[2]))
    else:
        dt = loc
    try:
        txt = hszinc.dump_scalar(dt, mode=mode)
    except ValueError:
        return 'ValueError'
    except Exception as e:  # noqa
        raise Violation('dump-raises', case, 'raised %s (only ValueError is allowed)' % describe_exc(e), tags + (type(e).__name__,))
    if spec[0] == 'naive':
        raise Violation('naive-accepted', case, 'naive date-time was written as %r' % (txt,), tags)
    body = txt[2:] if case['fmt'] == 'json' else txt
    if ' ' not in body:
        raise Violation('text-zone', case, 'no zone name in %r' % (txt,), tags)
    iso, zname = body.split(' ', 1)
    tz = guarded('zone-unknown', case, zoneinfo.timezone, zname)
    if dt.astimezone(tz).utcoffset() != dt.utcoffset():
        raise Violation('offset', case, 'emitted zone %s has offset %s at that instant, value has %s (text %r)' % (
            zname, dt.astimezone(tz).utcoffset(), dt.utcoffset(), txt), tags)
    stamp = _read_stamp(iso)
    if stamp is None or stamp != dt:
        raise Violation('text-iso', case, 'text %r does not carry the instant %s' % (txt, dt.isoformat()), tags)
    back = guarded('parse-raises', case, hszinc.parse_scalar, txt, mode=mode)
    if not isinstance(back, datetime.datetime) or back != dt:
        raise Violation('instant', case, 'wrote %s, read %r (text %r)' % (dt.isoformat(), back, txt), tags)
    if back.utcoffset() != dt.utcoffset():
        raise Violation('offset', case, 'offset %s became %s (text %r)' % (dt.utcoffset(), back.utcoffset(), txt), tags)
    return zname


def plan(tier, seed, excl):
    q = tier == 'quick'
    names = sorted(zmap())
    nsh = 16
    t = [('transitions', {'zones': names[i::nsh], 'all': not q}) for i in range(nsh)]
    t.append(('maplaws', {}))
    t += [('other-fixed', {'lo': lo, 'hi': lo + 210}) for lo in range(-840, 841, 210)]
    t.append(('other-alias', {}))
    t += [('same-instant', {'shard': i, 'of': 4}) for i in range(4)]
    t.append(('unmapped-names', {}))
    t += [('odd-reads', {'zones': names[i::4][::(6 if q else 1)]}) for i in range(4)]
    t += [('random', {'shard': i, 'n': 1500 if q else 40000}) for i in range(6)]
    return t


def run(part, args, env):
    acc = Acc(part)
    excl = env['excl']
    if part == 'transitions':
        n = 0
        for z in args['zones']:
            tr = transitions(zmap()[z])
            if not args['all'] and len(tr) > 19:
                tr = tr[:5] + tr[-14:]
            pts = [(t + datetime.timedelta(seconds=d), True) for t in tr for d in DELTAS]
            pts += [(datetime.datetime(2021, 1, 15, 12), False), (datetime.datetime(1900, 1, 1), False),
                    (datetime.datetime(9000, 1, 1), False), (datetime.datetime(5, 5, 5), False)]
            for inst, near in pts:
                if not (MIN_DT <= inst <= MAX_DT):
                    continue
                for us in MICROS:
                    for fmt in ('zinc', 'json'):
                        case = {'zone': z, 'utc': _fmt(inst), 'us': us, 'fmt': fmt, 'grid': n % 37 == 0}
                        n += 1
                        try:
                            check_mapped(case)
                        except Violation as v:
                            acc.violation(v)
                            if len(acc.violations) >= acc.MAX_VIOL:
                                return acc
                        acc.labels['near-transition' if near else 'ordinary'] += 1
                        acc.labels['fmt:' + fmt] += 1
                        if n % 9973 == 1:
                            acc.sample(case)
        acc.bulk(n, n)
        acc.exhaustive['mapped zones x tabulated transitions x deltas x microseconds x formats'] = bool(args['all'])
    elif part == 'same-instant':
        # the same instant written in every zone, one after the other in one process: each must carry its own zone
        # (aware date-times of one instant are == and hash alike, whatever their zone)
        names = sorted(zmap())
        n = 0
        insts = [datetime.datetime(2021, 1, 15, 12), datetime.datetime(2021, 7, 15, 3, 30, 15), datetime.datetime(1999, 12, 31, 23, 59, 59),
                 datetime.datetime(2030, 3, 10, 10)]
        for k, inst in enumerate(insts):
            if k % args['of'] != args['shard']:
                continue
            for us in (0, 999999):
                for fmt in ('zinc', 'json'):
                    for z in names:
                        case = {'zone': z, 'utc': _fmt(inst), 'us': us, 'fmt': fmt, 'grid': False}
                        n += 1
                        try:
                            check_mapped(case)
                        except Violation as v:
                            acc.violation(v)
                            if len(acc.violations) >= acc.MAX_VIOL:
                                return acc
        acc.bulk(n, n, labels=('same-instant-all-zones',))
        acc.sample({'instant': _fmt(insts[args['shard']]), 'zones': 'all %d, consecutively' % len(names)})
    elif part == 'unmapped-names':
        # documents carrying official Haystack zone names this host does not map must not disturb the mapping
        from hszinc import zoneinfo
        import hszinc
        unmapped = sorted(set(zoneinfo.HAYSTACK_TIMEZONES_SET) - set(zmap()))
        n = 0
        for name in unmapped + ['Nowhere', 'Knox', 'Salta']:
            for txt, mode in (('2021-06-01T12:00:00-05:00 %s' % name, hszinc.MODE_ZINC), ('t:2021-06-01T12:00:00-05:00 %s' % name, hszinc.MODE_JSON)):
                n += 1
                try:
                    back = hszinc.parse_scalar(txt, mode=mode)
                except ValueError:
                    continue
                except Exception as e:  # noqa
                    acc.violation(Violation('parse-raises', {'text': txt}, 'reading %r raised %s' % (txt, describe_exc(e))))
                    continue
                if not isinstance(back, datetime.datetime) or back.utcoffset() != datetime.timedelta(hours=-5):
                    acc.violation(Violation('offset', {'text': txt}, 'read %r as %r' % (txt, back)))
        try:
            k = check_map_laws()
            for z in sorted(zmap())[::7]:
                check_mapped({'zone': z, 'utc': '2021-06-01T12:00:00', 'us': 0, 'fmt': 'zinc', 'grid': False})
                check_mapped({'zone': z, 'utc': '2021-06-01T12:00:00', 'us': 0, 'fmt': 'json', 'grid': False})
                n += 2
            acc.bulk(n + k, n + k, labels=('unmapped-names-then-map-laws',))
            acc.sample({'unmapped_official_names': unmapped[:8], 'count': len(unmapped)})
        except Violation as v:
            acc.violation(v)
    elif part == 'odd-reads':
        for i, z in enumerate(args['zones']):
            case = {'odd_reads': z, 'fmt': 'json' if i % 2 else 'zinc'}
            try:
                n = check_after_odd_reads(case)
                acc.case(case, True, labels=('odd-reads:' + case['fmt'],))
                acc.evals += n
                if i % 20 == 0:
                    acc.sample(case)
            except Violation as v:
                acc.violation(v)
    elif part == 'maplaws':
        try:
            k = check_map_laws()
            acc.bulk(k, k, labels=('map-law',))
            acc.sample({'laws': True, 'zones': k})
        except Violation as v:
            acc.violation(v)
    elif part == 'other-fixed':
        n = 0
        raised = 0
        for off in range(args['lo'], min(args['hi'], 841)):
            for li, loc in enumerate(LOCALS):
                for fmt in ('zinc', 'json'):
                    case = {'tz': ['fixed', off], 'local': loc, 'us': (0, 1, 999999)[li % 3], 'fmt': fmt}
                    if 'tz.scan-invalid-time' in excl and off != 0:
                        acc.excluded['tz.scan-invalid-time'] += 1
                        continue
                    n += 1
                    try:
                        r = check_other(case)
                        raised += r == 'ValueError'
                    except Violation as v:
                        acc.violation(v)
                        if len(acc.violations) >= acc.MAX_VIOL:
                            return acc
                    if n % 4001 == 1:
                        acc.sample(case)
        acc.bulk(n, n, labels=('fixed-offset',))
        acc.labels['fixed-offset:ValueError'] += raised
        acc.exhaustive['every whole-minute offset -14h..+14h x %d local times x formats' % len(LOCALS)] = True
    elif part == 'other-alias':
        n = 0
        cases = []
        for a in ALIASES:
            for loc in LOCALS:
                for is_dst in (False, True):
                    for fmt in ('zinc', 'json'):
                        cases.append({'tz': ['alias', a], 'local': loc, 'us': 0, 'fmt': fmt, 'is_dst': is_dst})
        for std, dst in ((60, 120), (-300, -240), (345, 345), (0, 60), (-210, -150), (13 * 60, 14 * 60)):
            for loc in LOCALS:
                for fmt in ('zinc', 'json'):
                    cases.append({'tz': ['odd', std, dst], 'local': loc, 'us': 5, 'fmt': fmt})
        for loc in LOCALS[:3]:
            for fmt in ('zinc', 'json'):
                cases.append({'tz': ['naive'], 'local': loc, 'fmt': fmt})
        for case in cases:
            if 'tz.scan-invalid-time' in excl and case['tz'][0] != 'naive':
                acc.excluded['tz.scan-invalid-time'] += 1
                continue
            n += 1
            try:
                r = check_other(case)
                acc.labels['other:%s:%s' % (case['tz'][0], 'ValueError' if r == 'ValueError' else 'zone')] += 1
            except Violation as v:
                acc.violation(v)
            if n % 101 == 1:
                acc.sample(case)
        acc.bulk(n, n)
    else:
        from hypothesis import strategies as st
        names = sorted(zmap())
        inst = st.datetimes(min_value=MIN_DT, max_value=MAX_DT) | st.datetimes(
            min_value=datetime.datetime(1880, 1, 1), max_value=datetime.datetime(2040, 1, 1))
        mapped = st.fixed_dictionaries({'zone': st.sampled_from(names), 'utc': inst.map(lambda d: _fmt(d)),
                                        'us': st.sampled_from(MICROS) | st.integers(0, 999999),
                                        'fmt': st.sampled_from(['zinc', 'json']), 'grid': st.booleans()})
        other = st.fixed_dictionaries({'tz': st.one_of(
            st.integers(-840, 840).map(lambda m: ['fixed', m]), st.sampled_from(ALIASES).map(lambda a: ['alias', a]),
            st.tuples(st.integers(-720, 780), st.integers(-720, 840)).map(lambda p: ['odd', p[0], p[1]])),
            'local': st.datetimes(min_value=datetime.datetime(1900, 1, 1), max_value=datetime.datetime(2100, 1, 1)).map(_fmt),
            'us': st.integers(0, 999999), 'fmt': st.sampled_from(['zinc', 'json']), 'is_dst': st.booleans()})

        def body(case):
            if 'zone' in case:
                acc.case(case, True, labels=('random-mapped',))
                check_mapped(case)
            else:
                if 'tz.scan-invalid-time' in excl:
                    acc.excluded['tz.scan-invalid-time'] += 1
                    return
                if case['tz'][0] == 'alias':
                    import pytz
                    try:
                        pytz.timezone(case['tz'][1]).localize(_parse(case['local']), is_dst=None)
                    except pytz.exceptions.NonExistentTimeError:
                        return      # not a real local time in that zone
                    except pytz.exceptions.AmbiguousTimeError:
                        pass
                acc.case(case, True, labels=('random-other:' + case['tz'][0],))
                check_other(case)
            if acc.want_sample():
                acc.sample(case)
        run_hypothesis(acc, body, st.one_of(mapped, mapped, other), args['n'], shard_seed(env['seed'], PROPERTY, args['shard']))
    return acc


def replay(stage, case):
    if 'odd_reads' in case:
        check_after_odd_reads(case)
    elif 'laws' in case:
        check_map_laws()
    elif 'zone' in case and 'utc' in case:
        check_mapped(case)
    else:
        check_other(case)
