"""Hypothesis strategies over the neutral value model (vf.model) - DESIGN.md 1.4.

`excl` is the set of open-finding keys whose feature class is switched off
*by construction*; every draw altered by a switch is counted in ALTERED.
"""
import base64
import collections
import datetime
import string

from hypothesis import strategies as st

ALTERED = collections.Counter()

_CACHE = {}


def _cached(fn):
    def wrapper(*a):
        key = (fn.__name__,) + a
        if key not in _CACHE:
            _CACHE[key] = fn(*a)
        return _CACHE[key]
    return wrapper

NAME_FIRST = string.ascii_lowercase
NAME_REST = string.ascii_letters + string.digits + '_'

META_ATOMS = [
    '"', '\\', '$', '`', ',', ':', ';', '\n', '\r', '\t', '\b', '\f', '\x00', '\x01', '\x1f', '\x7f',
    u'\x80', u'\x85', u'\xe9', u'\u2028', u'\ufeff', u'\uffff', u'\U0001F600', u'\U0010FFFF', ' ', '  ',
    '0', '1', 'N', 'M', 'T', 'F', 'R', 'NA', 'INF', 'NaN', '>>', '<<', '[', ']', '{', '}', '(', ')', '@', '*',
    'n:1', 'm:', 's:', 'x:', '-:', 'z:', 'r:a', 'u:', 'b:', 'd:2020-01-01', 'h:12:00', 't:', 'c:1,2', 'x:T:p',
    'ver:"3.0"', '\n\n', '\r\n', '\\n', '\\u0041', '\\"', 'a', 'Z', '-', '\\$', '${x}', '\\\\',
    'HTTP://Example.COM/Path?Q=1#F', 'http://x.org/y', 'MailTo:Someone@Example.ORG', 'urn:ISBN:0-395-36341-1',
    '\\:', '\\#', '\\/', '\\;', 'C:\\dir\\file', '\\\\srv\\share', 'a\\?b=1&c', '\\[', '\\@',
]
C0_BAD = ''.join(chr(c) for c in range(0x20) if chr(c) not in '\b\f\n\r\t')

any_char = st.characters(blacklist_categories=('Cs',))
text_atoms = st.one_of(st.sampled_from(META_ATOMS), any_char, st.sampled_from(string.ascii_letters + ' '))


def text(max_atoms=8, min_size=0):
    return st.lists(text_atoms, min_size=min_size, max_size=max_atoms).map(u''.join)


def names(max_size=6):
    pool = st.sampled_from(['a', 'b', 'c', 'id', 'dis', 'val', 'x1', 'fooBar', 'n', 'm', 'na', 't', 'e', 'inf',
                            'not', 'and', 'or', 'siteRef', 'a_b', 'zZ9_', 'meta', 'cols', 'rows', 'ver', 'name', 'true', 'null'])
    free = st.builds(lambda f, r: f + r, st.sampled_from(NAME_FIRST),
                     st.text(alphabet=NAME_REST, max_size=max_size))
    return pool | free


BOUNDARY_FLOATS = [0.0, -0.0, 5e-324, 2.2250738585072014e-308, 1e-7, 1e-6, 0.1, 0.5, 1.0, -1.0, 1.5, 123.456,
                   1e15, 1e16, 1e17, 1e22, 1e23, float(2 ** 53), 1.7976931348623157e308, -1.7976931348623157e308,
                   0.30000000000000004, 1 / 3.0, 1e-5, 0.0001, 100.0, 1e21, 123456789012345680.0]
UNIT_ASCII = string.ascii_letters + '%_/$'


def finite_floats():
    return st.one_of(st.floats(allow_nan=False, allow_infinity=False),
                     st.sampled_from(BOUNDARY_FLOATS),
                     st.integers(-10 ** 6, 10 ** 6).map(float),
                     st.floats(min_value=-1000, max_value=1000, allow_nan=False).map(lambda f: round(f, 3)))


def numbers(excl=frozenset()):
    parts = [finite_floats(), st.integers(-2 ** 53, 2 ** 53), st.integers(-1000, 1000)]
    if 'num.nonfinite' not in excl:
        parts.append(st.sampled_from([float('inf'), float('-inf'), float('nan')]))
    return st.one_of(*parts).map(lambda v: ['num', v])


def units(excl=frozenset()):
    ch = st.one_of(st.sampled_from(UNIT_ASCII), st.sampled_from(UNIT_ASCII),
                   st.characters(min_codepoint=0x80, max_codepoint=0xfffe, blacklist_categories=('Cs',)))
    first = st.one_of(st.sampled_from(string.ascii_letters + '%/$'), st.sampled_from(string.ascii_letters),
                      st.characters(min_codepoint=0x80, max_codepoint=0xfffe, blacklist_categories=('Cs',)))
    u = st.builds(lambda f, r: f + u''.join(r), first, st.lists(ch, max_size=4))
    u = st.one_of(u, st.sampled_from(['kW', 'm', '%', u'\xb0C', 'kWh/m_', '$', 'e', 'E', 'e_x', 'E_', 'INF', 'NaN', 'N', 'T',
                                     'ft/min', u'\xb5m', 'e_', 'eV']))
    if 'zinc.unit-e-underscore' in excl:
        def fix(s):
            if len(s) >= 2 and s[0] in 'eE' and s[1] == '_':
                ALTERED['zinc.unit-e-underscore'] += 1
                return 'x' + s
            return s
        u = u.map(fix)
    return u


def quantities(excl=frozenset()):
    return st.builds(lambda v, u: ['qty', v, u], st.one_of(finite_floats(), st.integers(-2 ** 53, 2 ** 53)),
                     units(excl))


REF_CHARS = string.ascii_letters + string.digits + '_:-.~'


def refs(excl=frozenset()):
    name = st.text(alphabet=REF_CHARS, min_size=1, max_size=8) | st.sampled_from(['a', 'a.b', 'p:demo:r:1-2', '~', '-', '0'])
    return st.builds(lambda n, d: ['ref', n, d], name, st.none() | text())


MIME_CHARS = ''.join(chr(c) for c in list(range(0x20, 0x28)) + list(range(0x2a, 0x7f)))


def bins():
    return st.one_of(st.sampled_from(['text/plain', 'image/png', 'application/octet-stream']),
                     st.text(alphabet=MIME_CHARS, min_size=1, max_size=10)).map(lambda s: ['bin', s])


def xstrs():
    tname = st.builds(lambda f, r: f + r, st.sampled_from(string.ascii_uppercase),
                      st.text(alphabet=NAME_REST, max_size=5)) | st.sampled_from(['Span', 'C', 'T', 'NA', 'INF', 'X_1'])
    free = st.builds(lambda t, p: ['xstr', t, p], tname, text())
    hexs = st.binary(max_size=8).map(lambda b: ['xstr', 'hex', b.hex()])
    b64s = st.binary(max_size=8).map(lambda b: ['xstr', 'b64', base64.b64encode(b).decode('ascii')])
    return st.one_of(free, free, hexs, b64s)


def dates():
    return st.dates(min_value=datetime.date(1, 1, 1), max_value=datetime.date(9999, 12, 31)).map(
        lambda d: ['date', d.year, d.month, d.day]) | st.sampled_from([['date', 1, 1, 1], ['date', 9999, 12, 31],
                                                                      ['date', 999, 7, 12], ['date', 2020, 2, 29]])


def times():
    us = st.sampled_from([0, 0, 1, 10, 100000, 999999, 500000]) | st.integers(0, 999999)
    return st.builds(lambda h, m, s, u: ['time', h, m, s, u], st.integers(0, 23), st.integers(0, 59),
                     st.integers(0, 59), us)


_ZONES = None


def zone_names():
    global _ZONES
    if _ZONES is None:
        from hszinc import zoneinfo
        _ZONES = sorted(zoneinfo.get_tz_map())
    return _ZONES


_TRANSITIONS = {}


def _zone_transitions(z):
    if z not in _TRANSITIONS:
        import pytz
        from hszinc import zoneinfo
        tz = pytz.timezone(zoneinfo.get_tz_map()[z])
        tr = [t for t in getattr(tz, '_utc_transition_times', []) if t.year >= 1900]
        _TRANSITIONS[z] = tr[-40:] or [datetime.datetime(2020, 1, 1)]
    return _TRANSITIONS[z]


def datetimes():
    from .model import dt_text
    return st.one_of(_plain_datetimes(), _plain_datetimes(), _transition_datetimes())


def _transition_datetimes():
    """instants within +-1 h of a DST/offset transition of the zone (ambiguous and skipped local times)"""
    from .model import dt_text

    def build(z, k, delta, us):
        import pytz
        from hszinc import zoneinfo
        tr = _zone_transitions(z)
        i = tr[k % len(tr)] + datetime.timedelta(seconds=delta, microseconds=us)
        off = pytz.utc.localize(i).astimezone(pytz.timezone(zoneinfo.get_tz_map()[z])).utcoffset()
        return ['dt', dt_text(i), int(off.total_seconds()), z]
    zones = st.sampled_from(['New_York', 'Los_Angeles', 'London', 'Paris', 'Sydney', 'Lord_Howe', 'Chatham', 'Sao_Paulo', 'Cairo',
                             'Tehran', 'Auckland', 'Santiago', 'Berlin', 'Adelaide']) | st.sampled_from(zone_names())
    return st.builds(build, zones, st.integers(0, 39), st.sampled_from([-3600, -1800, -1, 0, 1, 1799, 1800, 3599, 3600]) |
                     st.integers(-3600, 3600), st.sampled_from([0, 0, 1, 999999]))


def _plain_datetimes():
    from .model import dt_text
    inst = st.datetimes(min_value=datetime.datetime(2, 1, 2), max_value=datetime.datetime(9998, 12, 30)) | \
        st.datetimes(min_value=datetime.datetime(1880, 1, 1), max_value=datetime.datetime(2040, 1, 1))
    us = st.sampled_from([0, 0, 0, 1, 999999, 120000]) | st.none()

    def build(i, u, z):
        import pytz
        from hszinc import zoneinfo
        if u is not None:
            i = i.replace(microsecond=u)
        off = pytz.utc.localize(i).astimezone(pytz.timezone(zoneinfo.get_tz_map()[z])).utcoffset()
        return ['dt', dt_text(i), int(off.total_seconds()), z]
    return st.builds(build, inst, us, st.sampled_from(zone_names()) | st.sampled_from(
        ['UTC', 'New_York', 'London', 'Brisbane', 'Kolkata', 'Lord_Howe', 'GMT-5', 'Chatham']))


def coords():
    lat = st.floats(-90, 90, allow_nan=False) | st.sampled_from([0.0, -90.0, 90.0, -27.4725, 1e-7, 89.9999995])
    lng = st.floats(-180, 180, allow_nan=False) | st.sampled_from([0.0, -180.0, 180.0, 153.003, -0.0000004])
    return st.builds(lambda a, b: ['coord', a, b], lat, lng)


JSONLIKE = ['[x]', '"q"', '{a}', '[1]', '{"a":1}', '"s:x"', '[]', '{}', '""', '["n:1"]', '[x}', '"x]', '{"meta":{"ver":"3.0"},"cols":[],"rows":[]}']


def strs():
    return st.one_of(text(), text(), text(), st.sampled_from(JSONLIKE)).map(lambda s: ['str', s])


def uris(conformant=False):
    t = text()
    if conformant:
        t = t.map(lambda s: u''.join(c for c in s if ord(c) >= 0x20))
    return t.map(lambda s: ['uri', s])


def scalars(ver, excl=frozenset(), uri_conformant=False, with_null=True):
    """flat (non-container) values legal under `ver`."""
    return _scalars(ver, frozenset(excl), uri_conformant, with_null)


def _scalars_impl(ver, excl, uri_conformant, with_null):
    parts = [st.just(['marker']), st.just(['remove']), st.booleans().map(lambda b: ['bool', b]),
             numbers(excl), quantities(excl), strs(), strs(), uris(uri_conformant), refs(excl),
             dates(), times(), datetimes(), coords()]
    if with_null:
        parts.append(st.just(['null']))
    if ver == '2.0' or 'zinc.bin-under-3' not in excl:
        parts.append(bins())
    else:
        ALTERED['zinc.bin-under-3'] += 0
    if ver == '3.0':
        parts += [st.just(['na']), xstrs()]
    return st.one_of(*parts)


_scalars = _cached(_scalars_impl)


def dict_keys():
    return names().filter(lambda n: n != 'rows')


def _kinds(m):
    from .model import kinds
    return kinds(m)


def values(ver, depth=2, excl=frozenset(), uri_conformant=False, with_null=True):
    """any value incl. containers (3.0 only), container nesting <= depth."""
    return _values(ver, depth, frozenset(excl), uri_conformant, with_null)


@_cached
def _values(ver, depth, excl, uri_conformant, with_null):
    sc = scalars(ver, excl, uri_conformant, with_null)
    if ver != '3.0' or depth <= 0:
        return sc
    inner = _values(ver, depth - 1, excl, uri_conformant, True)
    lists = st.lists(inner, max_size=3).map(lambda l: ['list', l])
    dicts = st.lists(st.tuples(dict_keys(), inner), max_size=3, unique_by=lambda kv: kv[0]).map(
        lambda kv: ['dict', [list(x) for x in kv]])
    grids_ = _grids('3.0', depth - 1, excl, uri_conformant, 2, 2, 1)
    # a nested grid may carry an older label (its own rules apply inside it); Bin is left out there, because the
    # 2.0 Bin literal inside a 3.0 document is not something either grammar defines
    old = _grids('2.0', 0, excl, uri_conformant, 2, 2, 1).filter(lambda g: not any(k == 'bin' for _, k in _kinds(g)))
    return st.one_of(sc, sc, sc, lists, dicts, grids_, grids_, old)


@_cached
def _meta_items(ver, depth, excl, uri_conformant, max_n, forbid):
    return st.lists(st.tuples(names().filter(lambda n: n not in forbid),
                              _values(ver, depth, excl, uri_conformant, True)),
                    max_size=max_n, unique_by=lambda kv: kv[0]).map(lambda kv: [list(x) for x in kv])


def grids(ver=None, depth=2, excl=frozenset(), uri_conformant=False, max_cols=3, max_rows=3, max_meta=2):
    return _grids(ver, depth, frozenset(excl), uri_conformant, max_cols, max_rows, max_meta)


@_cached
def _grids(ver, depth, excl, uri_conformant, max_cols, max_rows, max_meta):
    col_names = st.lists(names(), min_size=1, max_size=max_cols, unique=True)

    @st.composite
    def build(draw):
        v = ver if ver is not None else draw(st.sampled_from(['2.0', '3.0']))
        meta = draw(_meta_items(v, depth, excl, uri_conformant, max_meta, ('ver',)))
        cmeta = _meta_items(v, depth, excl, uri_conformant, 2, ('name',))
        cols = [[n, draw(cmeta) if draw(st.integers(0, 3)) == 0 else []] for n in draw(col_names)]
        cell = _values(v, depth, excl, uri_conformant, True)
        rows = []
        for _ in range(draw(st.integers(0, max_rows))):
            row = []
            for c in cols:
                if draw(st.integers(0, 4)) != 0:
                    x = draw(cell)
                    if x[0] != 'null':
                        row.append([c[0], x])
            rows.append(row)
        return ['grid', v, meta, cols, rows]
    return build()


def grid_docs(excl=frozenset(), uri_conformant=False, depth=2):
    """a document: one grid (dumped as Grid) or a list of 1-3 grids."""
    g = grids(None, depth, excl, uri_conformant)
    return st.one_of(g.map(lambda x: {'single': True, 'grids': [x]}),
                     g.map(lambda x: {'single': True, 'grids': [x]}),
                     st.lists(g, min_size=1, max_size=3).map(lambda l: {'single': False, 'grids': l}))


# --------------------------------------------------------------------------
# deterministic catalogue (no sampling): boundary payloads per kind, all zones,
# every kind in every position

def catalogue_scalars(ver, excl=frozenset()):
    from .model import dt_text
    import pytz
    from hszinc import zoneinfo
    out = [['marker'], ['remove'], ['bool', True], ['bool', False], ['null']]
    for f in BOUNDARY_FLOATS:
        out.append(['num', f])
        out.append(['num', -f])
        out.append(['qty', f, 'kW'])
    if 'num.nonfinite' not in excl:
        out += [['num', float('inf')], ['num', float('-inf')], ['num', float('nan')]]
    for i in (0, 1, -1, 2 ** 31, 2 ** 53, -(2 ** 53), 10 ** 15, 123456789):
        out.append(['num', i])
        out.append(['qty', i, u'\xb0C'])
    for u in ['%', '$', '/', 'a', 'Z', 'e', 'E', 'kWh/m_', u'\xb5', u'\u20ac', u'\ufffe', 'eV', 'INF', 'NaN', 'e_x', 'E_']:
        if 'zinc.unit-e-underscore' in excl and u[:2] in ('e_', 'E_'):
            continue
        out.append(['qty', 1.5, u])
    for s in META_ATOMS + ['', 'plain', 'a b', u'caf\xe9', '"quoted"', 'back\\slash', '$dollar', 'line\nbreak', 'x' * 200]:
        out.append(['str', s])
        out.append(['uri', s])
        out.append(['ref', 'a-b.c:d~e_1', s])
    out += [['ref', 'a', None], ['ref', REF_CHARS, None], ['ref', '0', None]]
    out += [['bin', 'text/plain'], ['bin', 'text/html; charset=utf8'], ['bin', MIME_CHARS]]
    out += [['date', 1, 1, 1], ['date', 999, 12, 31], ['date', 2020, 2, 29], ['date', 9999, 12, 31]]
    out += [['time', 0, 0, 0, 0], ['time', 23, 59, 59, 999999], ['time', 12, 0, 0, 1], ['time', 1, 2, 3, 120000],
            ['time', 1, 2, 3, 100]]
    out += [['coord', 0.0, 0.0], ['coord', -90.0, -180.0], ['coord', 90.0, 180.0], ['coord', -27.4725, 153.003],
            ['coord', 1e-7, -1e-7], ['coord', 37.545826, -77.449188]]
    tzmap = zoneinfo.get_tz_map()
    import datetime
    for z in sorted(tzmap):
        for inst in (datetime.datetime(2021, 1, 15, 12, 0, 0), datetime.datetime(2021, 7, 15, 3, 30, 15, 250000),
                     datetime.datetime(1950, 3, 1, 0, 0, 0, 1)):
            off = pytz.utc.localize(inst).astimezone(pytz.timezone(tzmap[z])).utcoffset()
            out.append(['dt', dt_text(inst), int(off.total_seconds()), z])
    if ver == '3.0':
        out += [['na'], ['xstr', 'Span', 'today'], ['xstr', 'hex', 'deadbeef'], ['xstr', 'b64', 'AAEC'],
                ['xstr', 'T', ''], ['xstr', 'Color', '"\\$\n:x:y'], ['list', []], ['dict', []],
                ['list', [['num', 1.0], ['str', 'a'], ['null'], ['marker']]],
                ['dict', [['a', ['marker']], ['b', ['num', 1]], ['c', ['str', 'x']]]]]
    return out


def catalogue_grids(excl=frozenset()):
    """every kind in every position; one grid per (position, kind sample)."""
    out = []
    for ver in ('2.0', '3.0'):
        samples = {}
        for m in catalogue_scalars(ver, excl):
            samples.setdefault(m[0], [])
            if len(samples[m[0]]) < 3:
                samples[m[0]].append(m)
        if ver == '3.0':
            samples['grid'] = [['grid', '3.0', [], [['a', []]], [[['a', ['num', 1.0]]]]]]
        for kind, vals in sorted(samples.items()):
            for v in vals:
                out.append(['grid', ver, [['m', v]], [['a', []]], []])
                out.append(['grid', ver, [], [['a', [['cm', v]]], ['b', []]], [[['b', ['marker']]]]])
                if v[0] != 'null':
                    out.append(['grid', ver, [], [['a', []], ['b', []]], [[['a', v]], [['b', v]], [['a', v], ['b', v]]]])
                if ver == '3.0':
                    out.append(['grid', ver, [], [['a', []]], [[['a', ['list', [v, v]]]]]])
                    out.append(['grid', ver, [], [['a', []]], [[['a', ['dict', [['k', v]]]]]]])
                    if v[0] != 'null':
                        out.append(['grid', ver, [], [['a', []]],
                                    [[['a', ['grid', '3.0', [['gm', v]], [['x', [['cm', v]]]], [[['x', v]]]]]]]])
        out.append(['grid', ver, [['meta', ['marker']], ['cols', ['num', 1.0]]],
                    [['meta', [['rows', ['str', 'x']]]], ['cols', []], ['rows', []], ['name', []], ['ver', []]],
                    [[['meta', ['num', 1.0]], ['cols', ['str', 'c']], ['rows', ['marker']], ['name', ['str', 'n']], ['ver', ['str', 'v']]],
                     [['rows', ['num', 2.0]]]]])
        if ver == '3.0':
            inner2 = ['grid', '2.0', [['im', ['remove']]], [['x', [['cm', ['remove']]]]], [[['x', ['remove']]], [['x', ['num', 1.0]]]]]
            out.append(['grid', ver, [['gm', inner2]], [['a', []]], [[['a', inner2]], [['a', ['list', [inner2, ['remove']]]]]]])
            out.append(['grid', ver, [], [['a', []]], [[['a', ['dict', [['a', ['null']], ['b', ['num', 1.0]]]]]]]])
        # one wide and long grid per version: 14 columns x 40 rows cycling through every scalar sample,
        # with sparse rows, 12 grid-metadata tags and metadata on every column
        pool = [v for vals in sorted(samples.items()) for v in vals[1] if v[0] not in ('null', 'grid')]
        cols = [['c%d' % j, [['dis', ['str', 'Column %d' % j]], ['k%d' % j, pool[(j * 7) % len(pool)]]]] for j in range(14)]
        rows = []
        for i in range(40):
            rows.append([['c%d' % j, pool[(i * 14 + j) % len(pool)]] for j in range(14) if (i + j) % 5])
        meta = [['m%d' % j, pool[(j * 3 + 1) % len(pool)]] for j in range(12)]
        out.append(['grid', ver, meta, cols, rows])
    return out


# --------------------------------------------------------------------------
# C03/C05: values whose *spelling* is part of the draw (number literals, zone-less date-times)

def _digit_group(max_size=6):
    return st.builds(lambda first, rest: first + u''.join(rest), st.sampled_from('0123456789'),
                     st.lists(st.sampled_from('0123456789_0123456789'), max_size=max_size - 1))


def number_literals(underscores=True):
    grp = _digit_group() if underscores else st.text(alphabet='0123456789', min_size=1, max_size=6)
    exp = st.builds(lambda e, s, d: e + s + d, st.sampled_from('eE'), st.sampled_from(['', '+', '-']),
                    (st.text(alphabet='0123456789', min_size=1, max_size=2) | st.sampled_from(['0', '00', '10', '22', '300', '308', '309', '324'] + (
                        ['1_0', '0_3', '2_2', '0__1'] if underscores else []))))
    return st.builds(lambda sign, i, f, e: sign + i + f + e, st.sampled_from(['', '', '-']), grp,
                     st.one_of(st.just(''), grp.map(lambda g: '.' + g)), st.one_of(st.just(''), st.just(''), exp))


def lit_value(lit):
    return float(lit.replace('_', ''))


def spelled_numbers(excl=frozenset(), fmt='zinc'):
    lits = number_literals(fmt == 'zinc').map(lambda l: ['num', lit_value(l), l])
    specials = st.sampled_from([['num', float('inf')], ['num', float('-inf')], ['num', float('nan')]])
    parts = [lits, lits, lits, specials, numbers(excl)]
    if fmt == 'json':
        raw = st.one_of(st.integers(-2 ** 53, 2 ** 53), st.integers(-100, 100), finite_floats()).map(lambda v: ['num', v, 'raw'])
        parts += [raw, raw]
    return st.one_of(*parts)


def spelled_quantities(excl=frozenset(), fmt='zinc'):
    import math
    return st.builds(lambda l, u: ['qty', lit_value(l), u, l], number_literals(fmt == 'zinc'), units(excl)).filter(
        lambda q: math.isfinite(q[1]))


def zoneless_datetimes(whole_hours=False):
    from .model import dt_text
    inst = st.datetimes(min_value=datetime.datetime(2, 1, 2), max_value=datetime.datetime(9998, 12, 30)) | \
        st.datetimes(min_value=datetime.datetime(1970, 1, 1), max_value=datetime.datetime(2040, 1, 1))
    off = st.integers(-12, 14).map(lambda h: h * 3600)
    if not whole_hours:
        off = off | st.integers(-14 * 60, 14 * 60).map(lambda m: m * 60) | st.just(0)
    us = st.sampled_from([0, 0, 1, 999999, 120000, 500000])
    return st.builds(lambda i, o, u: ['dt', dt_text(i.replace(microsecond=u)), o, None], inst, off, us)


@_cached
def _spelled_scalars(ver, excl, whole_hours, fmt='zinc'):
    parts = [st.just(['marker']), st.just(['remove']), st.booleans().map(lambda b: ['bool', b]),
             spelled_numbers(excl, fmt), spelled_quantities(excl, fmt), strs(), strs(), uris(fmt == 'zinc'), refs(excl),
             dates(), times(), datetimes(), zoneless_datetimes(whole_hours), coords(), st.just(['null']), bins()]
    if ver == '3.0':
        parts += [st.just(['na']), xstrs()]
    return st.one_of(*parts)


@_cached
def _spelled_values(ver, depth, excl, whole_hours, fmt='zinc'):
    sc = _spelled_scalars(ver, excl, whole_hours, fmt)
    if ver != '3.0' or depth <= 0:
        return sc
    inner = _spelled_values(ver, depth - 1, excl, whole_hours, fmt)
    lists = st.lists(inner, max_size=3).map(lambda l: ['list', l])
    dicts = st.lists(st.tuples(dict_keys(), inner), max_size=3, unique_by=lambda kv: kv[0]).map(
        lambda kv: ['dict', [list(x) for x in kv]])
    grids_ = _spelled_grids('3.0', depth - 1, excl, whole_hours, 2, 2, 1, fmt)
    return st.one_of(sc, sc, sc, lists, dicts, grids_)


@_cached
def _spelled_grids(ver, depth, excl, whole_hours, max_cols, max_rows, max_meta, fmt='zinc'):
    col_names = st.lists(names(), min_size=1, max_size=max_cols, unique=True)

    def metas(v, n, forbid):
        return st.lists(st.tuples(names().filter(lambda x: x not in forbid), _spelled_values(v, depth, excl, whole_hours, fmt)),
                        max_size=n, unique_by=lambda kv: kv[0]).map(lambda kv: [list(x) for x in kv])

    @st.composite
    def build(draw):
        v = ver if ver is not None else draw(st.sampled_from(['2.0', '3.0']))
        meta = draw(metas(v, max_meta, ('ver',)))
        cols = [[n, draw(metas(v, 2, ('name',))) if draw(st.integers(0, 3)) == 0 else []] for n in draw(col_names)]
        cell = _spelled_values(v, depth, excl, whole_hours, fmt)
        rows = []
        for _ in range(draw(st.integers(0, max_rows))):
            row = []
            for c in cols:
                if draw(st.integers(0, 3)) != 0:
                    x = draw(cell)
                    if x[0] != 'null':
                        row.append([c[0], x])
            rows.append(row)
        return ['grid', v, meta, cols, rows]
    return build()


def spelled_grids(ver=None, depth=2, excl=frozenset(), whole_hours=False, max_cols=3, max_rows=3, max_meta=2, fmt='zinc'):
    return _spelled_grids(ver, depth, frozenset(excl), whole_hours, max_cols, max_rows, max_meta, fmt)


def spelling_plans(max_size=80):
    return st.lists(st.integers(0, 11), max_size=max_size)


# --------------------------------------------------------------------------
# size sweeps: one dimension of a document at a time is pushed over the usual power-of-two / power-of-ten
# boundaries (a cache, a buffer, a chunked writer, a recursion or a "fast path for small inputs" would live there)
SIZE_STEPS = [9, 10, 11, 15, 16, 17, 20, 31, 32, 33, 50, 63, 64, 65, 99, 100, 101, 127, 128, 129, 200, 255, 256, 257,
              300, 500, 511, 512, 513, 999, 1000, 1001, 1023, 1024, 1025]
SIZE_STEPS_LONG = [2047, 2048, 2049, 4095, 4096, 4097, 8191, 8192, 8193, 9999, 10000, 10001, 16383, 16384, 16385, 32767, 32768,
                   32769, 65535, 65536, 65537, 100000, 131073]
SIZE_AXES = ['rows', 'cols', 'gridmeta', 'colmeta', 'list', 'dict', 'str', 'uri', 'refdis', 'xstr', 'grids', 'nestrows',
             'strcells', 'distinct', 'digits', 'nestlist']


def _size_pool(ver):
    pool = []
    for m in catalogue_scalars(ver):
        if m[0] in ('null', 'grid', 'list', 'dict'):
            continue
        if m[0] == 'uri' and any(ord(c) < 0x20 for c in m[1]):
            continue
        pool.append(m)
    return pool[::5]


def _size_text(n, salt=0):
    """n characters, mostly plain, with a metacharacter every few positions and the interesting ones at both ends"""
    specials = ['"', '\\', '$', '`', '\n', ',', ':', u'\xe9', u' ', u'\U0001F600', '\t', ' ', ']', '}', '>', '\x01']
    out = []
    for i in range(n):
        if (i + salt) % 7 == 3 or i in (0, n - 1):
            out.append(specials[(i // 7 + i + salt) % len(specials)])
        else:
            out.append('abcdefghijklmnopqrstuvwxyz0123456789'[(i * 5 + salt) % 36])
    return u''.join(out)


def sized_doc(axis, n, ver):
    """(list of grid models, single) for one point of the sweep; deterministic"""
    pool = _size_pool(ver)
    P = len(pool)
    v3 = ver == '3.0'
    if axis == 'rows':
        cols = [['a', []], ['b', []], ['id', []]]
        rows = [[['a', pool[i % P]], ['b', pool[(i * 3 + 1) % P]], ['id', ['ref', 'r%d' % i, None]]][: 3 if i % 4 else 2] for i in range(n)]
        return [['grid', ver, [], cols, rows]], True
    if axis == 'cols':
        cols = [['c%d' % j, [['k', pool[j % P]]] if j % 3 == 0 else []] for j in range(n)]
        rows = [[['c%d' % j, pool[(j + 1) % P]] for j in range(n) if (j + 1) % 4], [['c%d' % (n - 1), ['marker']]]]
        return [['grid', ver, [], cols, rows]], True
    if axis == 'gridmeta':
        return [['grid', ver, [['m%d' % j, pool[j % P]] for j in range(n)], [['a', []]], [[['a', ['num', 1.0]]]]]], True
    if axis == 'colmeta':
        return [['grid', ver, [], [['a', [['m%d' % j, pool[j % P]] for j in range(n)]], ['b', []]], [[['b', ['num', 1.0]]]]]], True
    if axis == 'list':
        return [['grid', '3.0', [], [['a', []]], [[['a', ['list', [pool[j % P] for j in range(n)]]]]]]], True
    if axis == 'dict':
        return [['grid', '3.0', [], [['a', []]], [[['a', ['dict', [['t%d' % j, pool[j % P]] for j in range(n)]]]]]]], True
    if axis == 'str':
        s = _size_text(n)
        return [['grid', ver, [['dis', ['str', s]]], [['a', [['dis', ['str', _size_text(n, 1)]]]]], [[['a', ['str', _size_text(n, 2)]]]]]], True
    if axis == 'uri':
        s = _size_text(n).replace('\n', '/').replace('\t', '~').replace('\x01', '!')
        return [['grid', ver, [], [['a', []]], [[['a', ['uri', s]]]]]], True
    if axis == 'refdis':
        s = _size_text(n)
        name = ''.join('abcXYZ019_:-.~'[(i * 3) % 14] for i in range(min(n, 300)))
        return [['grid', ver, [], [['a', []], ['b', []]], [[['a', ['ref', 'x', s]], ['b', ['ref', name, None]]]]]], True
    if axis == 'xstr':
        return [['grid', '3.0', [], [['a', []]], [[['a', ['xstr', 'Blob', _size_text(n)]]],
                                                   [['a', ['xstr', 'hex', ''.join('0123456789abcdef'[(i * 7) % 16] for i in range(2 * (n // 2)))]]]]]], True
    if axis == 'grids':
        return [['grid', ver if i % 2 else '3.0', [['n', ['num', float(i)]]], [['a', []]], [[['a', pool[i % P]]]] if i % 3 else []]
                for i in range(n)], False
    if axis == 'nestrows':
        inner = ['grid', '3.0', [], [['x', []], ['y', []]], [[['x', pool[i % P]], ['y', ['num', float(i)]]] for i in range(n)]]
        return [['grid', '3.0', [['g', inner]], [['a', []]], [[['a', inner]], [['a', ['list', [inner]]]]]]], True
    if axis == 'strcells':
        # n short string cells that are all different, then the same ones again (interning / memo tables)
        vals = [['str', 's%d\n"' % i] for i in range(n)]
        rows = [[['a', v], ['b', ['uri', 'u%d`' % i]]] for i, v in enumerate(vals)] + [[['a', v]] for v in vals[: 1 + n // 2]]
        return [['grid', ver, [], [['a', []], ['b', []]], rows]], True
    if axis == 'distinct':
        # n distinct numbers / quantities / dates / times / date-times (memo tables keyed by value or by text)
        rows = []
        for i in range(n):
            rows.append([['a', ['num', i + 0.5]], ['b', ['qty', float(i), 'kW']], ['c', ['date', 1970 + (i // 336) % 200, 1 + (i // 28) % 12, 1 + i % 28]],
                         ['d', ['time', i % 24, (i // 24) % 60, (i * 7) % 60, (i * 1001) % 1000000 if i % 3 == 0 else 0]]])
        rows += [[['a', ['num', i + 0.5]], ['b', ['qty', float(i), 'kWh']]] for i in range(0, n, 3)]
        return [['grid', ver, [], [['a', []], ['b', []], ['c', []], ['d', []]], rows]], True
    if axis == 'digits':
        vals = [['num', float(10 ** n)] if n <= 308 else ['num', float(n)], ['num', float(2 ** min(n, 1023))], ['num', -float(2 ** min(n, 1023)) - 1.0],
                ['num', 2.0 ** -min(n, 1074)], ['num', float(int(('1234567890' * 40)[:min(n, 308)]))],
                ['qty', float(10 ** min(n, 308)), 'm'], ['num', float(n) + 0.5], ['num', float(n) / 7.0]]
        return [['grid', ver, [], [['a', []]], [[['a', v]] for v in vals]]], True
    if axis == 'nestlist':
        # a list of n lists of 2 items, and a dict of n dicts
        return [['grid', '3.0', [], [['a', []]], [[['a', ['list', [['list', [pool[j % P], ['num', float(j)]]] for j in range(n)]]]],
                                                   [['a', ['dict', [['t%d' % j, ['dict', [['u', pool[j % P]]]]] for j in range(n)]]]]]]], True
    raise ValueError(axis)


SIZE_LIMIT = {  # largest n per axis: quick, thorough (cost of hszinc's ZINC reader is ~0.3 ms per cell)
    'rows': (1025, 4097), 'cols': (513, 1025), 'gridmeta': (513, 1025), 'colmeta': (513, 1025), 'list': (257, 1025),
    'dict': (129, 513), 'str': (131073, 131073), 'uri': (65537, 131073), 'refdis': (65537, 131073), 'xstr': (65537, 131073),
    'grids': (129, 513), 'nestrows': (65, 257), 'strcells': (1025, 4097), 'distinct': (1025, 4097), 'digits': (1025, 1025),
    'nestlist': (33, 129),
}


def sized_points(tier, v3_only_axes=('list', 'dict', 'xstr', 'nestrows', 'nestlist')):
    out = []
    for axis in SIZE_AXES:
        lim = SIZE_LIMIT[axis][0 if tier == 'quick' else 1]
        for n in SIZE_STEPS + SIZE_STEPS_LONG:
            if n > lim:
                break
            for ver in (('3.0',) if axis in v3_only_axes else ('2.0', '3.0')):
                if tier == 'quick' and ver == '2.0' and n > 300 and n % 2:
                    continue
                out.append((axis, n, ver))
    return out
