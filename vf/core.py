"""Shared plumbing: Violation, per-shard accumulator, hypothesis driver, repo import.

Nothing in here looks at a clock or a private RNG; every random choice comes
from Hypothesis seeded with a value derived from VERIF_SEED.
"""
import collections
import hashlib
import json
import os
import sys
import traceback

VERIF_DIR = os.path.dirname(os.path.dirname(os.path.abspath(__file__)))
REPO_DIR = os.environ.get('VERIF_REPO', '/repo')

_REAL_STDOUT = None


def real_stdout():
    return _REAL_STDOUT or sys.__stdout__


def silence_stdout():
    """hszinc prints debug text (which may contain generated strings) to
    stdout; all our own reporting goes to the saved real stdout."""
    global _REAL_STDOUT
    if _REAL_STDOUT is None:
        _REAL_STDOUT = sys.stdout
        sys.stdout = open(os.devnull, 'w')


def import_repo():
    """Import hszinc from the repository working tree (never a stale copy)."""
    sys.dont_write_bytecode = True
    if sys.path[0] != REPO_DIR:
        sys.path.insert(0, REPO_DIR)
    import warnings
    warnings.filterwarnings('ignore')
    import hszinc
    here = os.path.realpath(os.path.dirname(hszinc.__file__))
    want = os.path.realpath(os.path.join(REPO_DIR, 'hszinc'))
    if here != want:
        raise HarnessError('hszinc imported from %s, expected %s' % (here, want))
    return hszinc


class HarnessError(Exception):
    pass


class Violation(Exception):
    """An oracle failure.  `case` must be JSON-serialisable and sufficient for
    the check's replay() to re-execute it without Hypothesis."""

    def __init__(self, stage, case, detail, tags=()):
        Exception.__init__(self, '%s: %s' % (stage, detail))
        self.stage = stage
        self.case = case
        self.detail = str(detail)[:2000]
        self.tags = tuple(tags)

    @property
    def sig(self):
        return (self.stage, self.detail.split(':')[0][:60]) + self.tags

    def to_dict(self):
        return {'stage': self.stage, 'case': self.case, 'detail': self.detail,
                'tags': list(self.tags)}


def exc_site(exc):
    """innermost hszinc frame of an exception's traceback: 'file:function'."""
    site = None
    for fs in traceback.extract_tb(exc.__traceback__):
        if '/hszinc/' in fs.filename:
            site = '%s:%s' % (os.path.basename(fs.filename), fs.name)
    return site or 'outside-hszinc'


def describe_exc(exc):
    return '%s@%s: %s' % (type(exc).__name__, exc_site(exc), str(exc)[:300])


def h64(obj):
    if not isinstance(obj, (bytes, str)):
        obj = json.dumps(obj, sort_keys=True, default=repr, ensure_ascii=True)
    if isinstance(obj, str):
        obj = obj.encode('utf-8', 'surrogatepass')
    return int.from_bytes(hashlib.blake2b(obj, digest_size=8).digest(), 'big')


class Acc(object):
    """Per-shard accumulator (picklable via to_dict)."""
    MAX_SAMPLES = 6
    MAX_VIOL = 8

    def __init__(self, part):
        self.part = part
        self.evals = 0
        self.nontrivial = set()
        self.nontrivial_extra = 0   # distinct by construction (enumerations)
        self.labels = collections.Counter()
        self.samples = []
        self.violations = []
        self.ignored_dupes = 0
        self.excluded = collections.Counter()
        self.inconclusive = 0
        self.exhaustive = {}
        self.notes = []

    def case(self, canon=None, nontrivial=True, labels=()):
        self.evals += 1
        if nontrivial and canon is not None:
            self.nontrivial.add(h64(canon))
        for l in labels:
            self.labels[l] += 1

    def bulk(self, n, distinct_nontrivial, labels=()):
        """n enumerated cases, pairwise distinct by construction."""
        self.evals += n
        self.nontrivial_extra += distinct_nontrivial
        for l in labels:
            self.labels[l] += n

    def label(self, l, n=1):
        self.labels[l] += n

    def sample(self, obj, force=False):
        if force or len(self.samples) < self.MAX_SAMPLES:
            self.samples.append(obj)

    def want_sample(self):
        return len(self.samples) < self.MAX_SAMPLES

    def violation(self, v):
        if len(self.violations) < self.MAX_VIOL:
            self.violations.append(v.to_dict())

    def to_dict(self):
        return {
            'part': self.part, 'evals': self.evals,
            'nontrivial': self.nontrivial, 'nontrivial_extra': self.nontrivial_extra,
            'labels': dict(self.labels), 'samples': self.samples,
            'violations': self.violations, 'ignored_dupes': self.ignored_dupes,
            'excluded': dict(self.excluded), 'inconclusive': self.inconclusive,
            'exhaustive': self.exhaustive, 'notes': self.notes,
        }


def guarded(stage, case_fn, fn, *args, **kw):
    """Call code under test; any exception is an oracle failure of `stage`."""
    try:
        return fn(*args, **kw)
    except Violation:
        raise
    except Exception as e:  # noqa - every exception of the code under test
        raise Violation(stage, case_fn() if callable(case_fn) else case_fn,
                        'raised ' + describe_exc(e), tags=(type(e).__name__,))


def run_hypothesis(acc, body, strategy, max_examples, seed, rounds=4, stateful_steps=None):
    """Drive body(case) with Hypothesis; collect-then-continue over several
    root causes: after a (shrunk) Violation its signature is ignored and the
    search restarts with the remaining budget."""
    import hypothesis
    from hypothesis import given, settings, HealthCheck, Phase
    ignored = set()
    remaining = max_examples
    for r in range(rounds):
        if remaining <= 0:
            break
        counter = {'n': 0}

        def wrapped(case):
            counter['n'] += 1
            try:
                body(case)
            except Violation as v:
                if v.sig in ignored:
                    acc.ignored_dupes += 1
                    return
                raise

        test = settings(max_examples=remaining, database=None, deadline=None,
                        derandomize=False, report_multiple_bugs=False, print_blob=False,
                        suppress_health_check=list(HealthCheck),
                        phases=(Phase.explicit, Phase.generate, Phase.shrink))(
            hypothesis.seed(seed * 7919 + r)(given(strategy)(wrapped)))
        try:
            test()
        except Violation as v:
            found = v
        except BaseException as e:  # noqa - e.g. hypothesis Flaky/FlakyFailure groups wrapping a Violation
            found = _find_violation(e)
            if found is None:
                raise
            acc.notes.append('violation reported through %s (behaviour differed between executions of one case)' % type(e).__name__)
        else:
            break
        acc.violation(found)
        ignored.add(found.sig)
        remaining -= counter['n']
        remaining = max(remaining, max_examples // 4)


def _find_violation(e, depth=0):
    if isinstance(e, Violation):
        return e
    if depth > 6 or e is None:
        return None
    for sub in list(getattr(e, 'exceptions', ()) or ()) + [getattr(e, '__cause__', None), getattr(e, '__context__', None)]:
        v = _find_violation(sub, depth + 1) if sub is not None else None
        if v is not None:
            return v
    return None


def shard_seed(seed, *parts):
    return h64(json.dumps([seed] + [str(p) for p in parts])) % (2 ** 31)


def lru_cached_functions(module):
    """(name, function) of every functools.lru_cache-wrapped function at module level (found by shape, not by name, so a
    renamed or additional cache is handled too)"""
    return [(k, v) for k, v in sorted(vars(module).items()) if callable(getattr(v, 'cache_clear', None)) and hasattr(v, '__wrapped__')]


def clear_lru_caches(module):
    for _, f in lru_cached_functions(module):
        f.cache_clear()
