"""Coverage-guided fuzz targets (atheris / libFuzzer) with the semantic oracles of C09 and C12 inside.

  python -m vf.fuzz C09|C12 <statsfile> [libFuzzer args...] <corpus dir>

Run as a subprocess by the thorough tier of those checks (needs atheris from /verif/.deps).  The target
resets the compiled-filter cache each iteration (C12) and keeps no other state.  A Violation is written
to <statsfile>.violation.json and re-raised so that libFuzzer stops and saves the input.
"""
import json
import os
import sys


def main(argv):
    prop, statsfile = argv[1], argv[2]
    fargs = [argv[0]] + argv[3:]
    here = os.path.dirname(os.path.dirname(os.path.abspath(__file__)))
    sys.path.insert(0, os.path.join(here, '.deps'))
    import atheris
    from vf import core
    core.silence_stdout()
    with atheris.instrument_imports(include=['hszinc']):
        core.import_repo()
    from vf.core import Violation
    from vf.checks import c09, c12
    c09.EXCL = frozenset(k for k in os.environ.get('VERIF_EXCL', '').split(',') if k)   # open-finding switches
    stats = {'runs': 0, 'nontrivial': 0, 'outcomes': {}}

    def flush():
        with open(statsfile, 'w') as f:
            json.dump(stats, f)

    def one(data):
        fdp = atheris.FuzzedDataProvider(data)
        text = fdp.ConsumeUnicodeNoSurrogates(400)
        stats['runs'] += 1
        try:
            if prop == 'C09':
                text = c09.bounded_nesting(text)
                r = c09.check_text(text)
                stats['nontrivial'] += text.startswith('ver:"')
            else:
                r = c12.check({'filter': text, 'payload': text, 'slot': 'fuzz'})
                stats['nontrivial'] += r == 'compiled'
            stats['outcomes'][r] = stats['outcomes'].get(r, 0) + 1
        except Violation as v:
            with open(statsfile + '.violation.json', 'w') as f:
                json.dump(v.to_dict(), f)
            flush()
            raise
        if stats['runs'] % 500 == 0:
            flush()

    atheris.Setup(fargs, one)
    try:
        atheris.Fuzz()
    finally:
        flush()


def run_campaign(prop, seed, runs, corpus_texts, dictionary, workdir, timeout=1800, excl=()):
    """spawn the target; returns dict(evaluations, nontrivial, outcomes, violation|None, note)"""
    import shutil
    import subprocess
    here = os.path.dirname(os.path.dirname(os.path.abspath(__file__)))
    deps = os.path.join(here, '.deps')
    if not os.path.isdir(os.path.join(deps, 'atheris')):
        return {'evaluations': 0, 'nontrivial': 0, 'outcomes': {}, 'violation': None,
                'note': 'atheris is not installed in /verif/.deps (tools/setup.sh installs it); campaign skipped'}
    shutil.rmtree(workdir, ignore_errors=True)
    corpus = os.path.join(workdir, 'corpus')
    os.makedirs(corpus)
    for i, t in enumerate(corpus_texts):
        with open(os.path.join(corpus, 'seed%03d' % i), 'wb') as f:
            f.write(t.encode('utf-8'))
    dpath = os.path.join(workdir, 'dict.txt')
    with open(dpath, 'w') as f:
        for tok in dictionary:
            b = tok.encode('utf-8')
            f.write('"%s"\n' % ''.join('\\x%02x' % c for c in b))
    stats = os.path.join(workdir, 'stats.json')
    env = dict(os.environ, PYTHONPATH=here, PYTHONDONTWRITEBYTECODE='1', VERIF_EXCL=','.join(sorted(excl)))
    cmd = [sys.executable, '-m', 'vf.fuzz', prop, stats, '-runs=%d' % runs, '-seed=%d' % (seed or 1), '-max_len=600',
           '-dict=' + dpath, '-artifact_prefix=' + workdir + '/', '-print_final_stats=1', corpus]
    try:
        p = subprocess.run(cmd, cwd=here, env=env, stdout=subprocess.PIPE, stderr=subprocess.STDOUT, timeout=timeout, text=True,
                           errors='replace')
        tail = p.stdout[-1500:]
        rc = p.returncode
    except subprocess.TimeoutExpired as e:
        tail, rc = 'timeout', -1
    res = {'evaluations': 0, 'nontrivial': 0, 'outcomes': {}, 'violation': None, 'note': 'exit %s' % rc}
    if os.path.exists(stats):
        st = json.load(open(stats))
        res.update(evaluations=st['runs'], nontrivial=st['nontrivial'], outcomes=st['outcomes'])
    if os.path.exists(stats + '.violation.json'):
        res['violation'] = json.load(open(stats + '.violation.json'))
    elif rc not in (0,) and res['evaluations'] == 0:
        res['note'] = 'fuzz target failed to run: ' + tail[-400:]
        res['failed'] = True
    elif rc not in (0,):
        res['note'] = 'libFuzzer stopped with exit %s without a Violation: %s' % (rc, tail[-300:])
        res['failed'] = True
    shutil.rmtree(workdir, ignore_errors=True)
    return res


if __name__ == '__main__':
    main(sys.argv)
