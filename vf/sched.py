"""Deterministic cooperative scheduler for code under test (C13).

Worker threads run with a sys.settrace hook that, on every `line` event inside the selected
functions of one source file, hands control back to a controller.  Exactly one worker runs at a
time, so an execution is fully determined by the *schedule*: the list of worker ids in the
order they are resumed.  A schedule is data: it can be enumerated, drawn by Hypothesis, shrunk
and replayed.
"""
import queue
import sys
import threading
import time


class SchedulerError(Exception):
    pass


class SchedulerDeadlock(SchedulerError):
    """every unfinished worker is running (none is paused by the scheduler) and none makes progress"""


class Run(object):
    def __init__(self, nworkers, schedule, where, func_names=None, timeout=60, block_interval=0.025, block_samples=6):
        """where: {filename suffix: iterable of function names} (or a suffix plus func_names)"""
        self.n = nworkers
        self.schedule = list(schedule)
        if not isinstance(where, dict):
            where = {where: func_names}
        self.where = dict((k, frozenset(v)) for k, v in where.items())
        self.timeout = timeout
        self.block_interval = block_interval
        self.block_samples = block_samples
        self.native = [None] * nworkers
        self.blocked = 0         # times a resumed worker was found blocked (see run)
        self.q = queue.Queue()
        self.go = [threading.Event() for _ in range(nworkers)]
        self.trace = []          # worker ids in the order they were actually resumed
        self.yields = [0] * nworkers
        self.results = [None] * nworkers
        self.errors = [None] * nworkers

    def _global_trace(self, tid):
        def local(frame, event, arg):
            if event == 'line':
                self.yields[tid] += 1
                self.q.put(('yield', tid))
                self.go[tid].wait()
                self.go[tid].clear()
            return local

        def tracer(frame, event, arg):
            if event == 'call':
                co = frame.f_code
                for suffix, funcs in self.where.items():
                    if co.co_filename.endswith(suffix) and co.co_name in funcs:
                        return local
            return None
        return tracer

    def _worker(self, tid, fn):
        self.native[tid] = threading.get_native_id()
        self.go[tid].wait()
        self.go[tid].clear()
        sys.settrace(self._global_trace(tid))
        try:
            try:
                self.results[tid] = fn()
            except BaseException as e:  # noqa - reported to the controller
                self.errors[tid] = e
        finally:
            sys.settrace(None)
            self.q.put(('done', tid))

    def _sleeping(self, tid):
        """(state, cpu ticks) of the worker's OS thread from /proc, or None where that is not available"""
        try:
            with open('/proc/self/task/%d/stat' % self.native[tid]) as f:
                fields = f.read().rsplit(')', 1)[1].split()
            return fields[0], int(fields[11]) + int(fields[12])
        except Exception:  # noqa
            return None

    def _wait(self, watch, inflight):
        """next message; None if worker `watch` is found blocked: asleep (not runnable, not waiting for a core) and
        using no CPU over block_samples consecutive observations, i.e. waiting for something a paused worker holds.
        Without /proc a blocked worker is only recognised by the overall timeout."""
        deadline = time.time() + self.timeout
        quiet = 0
        last = None
        while True:
            try:
                return self.q.get(timeout=self.block_interval)
            except queue.Empty:
                pass
            if time.time() > deadline:
                raise SchedulerDeadlock('workers %s did not yield or finish within %ds' % (sorted(inflight), self.timeout))
            if watch is None:
                continue
            cur = self._sleeping(watch)
            if cur is not None and cur[0] == 'S' and cur == last:
                quiet += 1
                if quiet >= self.block_samples:
                    return None
            else:
                quiet = 0
            last = cur

    def run(self, fns):
        """Exactly one worker runs at a time as long as no worker blocks on a lock held by a paused worker.  A worker that
        is asleep without using CPU (see _wait) while another worker is paused is taken to be blocked on
        something the paused worker holds: it stays 'in flight' and another worker is resumed; it reports by itself once it
        gets through.  (Code under test that serialises its threads with a lock is thereby scheduled as the lock allows,
        instead of hanging the controller.)"""
        threads = [threading.Thread(target=self._worker, args=(i, f), daemon=True) for i, f in enumerate(fns)]
        for t in threads:
            t.start()
        runnable = set(range(self.n))
        inflight = set()
        pos = 0
        while runnable:
            avail = runnable - inflight
            tid = None
            if avail:
                while pos < len(self.schedule):
                    cand = self.schedule[pos]
                    pos += 1
                    if cand in avail:
                        tid = cand
                        break
                if tid is None:
                    tid = min(avail)
                self.trace.append(tid)
                inflight.add(tid)
                self.go[tid].set()
            msg = self._wait(tid if avail and len(avail) > 1 else None, inflight)
            if msg is None:
                self.blocked += 1
                continue
            if msg[1] not in inflight:
                raise SchedulerError('worker %d reported while workers %s were scheduled' % (msg[1], sorted(inflight)))
            inflight.discard(msg[1])
            if msg[0] == 'done':
                runnable.discard(msg[1])
        for t in threads:
            t.join(self.timeout)
        return self


def preemptions(trace):
    """number of switches away from a worker that had not finished (context switches - 1 per worker end)"""
    return sum(1 for a, b in zip(trace, trace[1:]) if a != b)


def bounded_schedules(segments, max_switches):
    """all schedules for len(segments) workers where worker i needs segments[i] resumptions, with at most
    max_switches changes of the running worker"""
    n = len(segments)
    out = []

    def rec(remaining, last, switches, acc):
        if all(r == 0 for r in remaining):
            out.append(list(acc))
            return
        for t in range(n):
            if remaining[t] == 0:
                continue
            sw = switches + (1 if (last is not None and t != last) else 0)
            if sw > max_switches:
                continue
            # run t for every possible positive number of segments (if t == last, only 1 more to avoid duplicates)
            if t == last:
                remaining[t] -= 1
                acc.append(t)
                rec(remaining, t, sw, acc)
                acc.pop()
                remaining[t] += 1
            else:
                remaining[t] -= 1
                acc.append(t)
                rec(remaining, t, sw, acc)
                acc.pop()
                remaining[t] += 1
    rec(list(segments), None, 0, [])
    return out
