"""Deterministic cooperative scheduler for code under test (C13).

Worker threads run with a sys.settrace hook that, on every `line` event inside the selected
functions of one source file, hands control back to a controller.  Exactly one worker runs at a
time, so an execution is fully determined by the *schedule*: the list of worker ids in the
order they are resumed.  A schedule is data: it can be enumerated, drawn by Hypothesis, shrunk
and replayed.
"""
import queue
import sys
import threading


class SchedulerError(Exception):
    pass


class Run(object):
    def __init__(self, nworkers, schedule, where, func_names=None, timeout=60):
        """where: {filename suffix: iterable of function names} (or a suffix plus func_names)"""
        self.n = nworkers
        self.schedule = list(schedule)
        if not isinstance(where, dict):
            where = {where: func_names}
        self.where = dict((k, frozenset(v)) for k, v in where.items())
        self.timeout = timeout
        self.q = queue.Queue()
        self.go = [threading.Event() for _ in range(nworkers)]
        self.trace = []          # worker ids in the order they were actually resumed
        self.yields = [0] * nworkers
        self.results = [None] * nworkers
        self.errors = [None] * nworkers

    def _global_trace(self, tid):
        def local(frame, event, arg):
            if event == 'line':
                self.yields[tid] += 1
                self.q.put(('yield', tid))
                self.go[tid].wait()
                self.go[tid].clear()
            return local

        def tracer(frame, event, arg):
            if event == 'call':
                co = frame.f_code
                for suffix, funcs in self.where.items():
                    if co.co_filename.endswith(suffix) and co.co_name in funcs:
                        return local
            return None
        return tracer

    def _worker(self, tid, fn):
        self.go[tid].wait()
        self.go[tid].clear()
        sys.settrace(self._global_trace(tid))
        try:
            try:
                self.results[tid] = fn()
            except BaseException as e:  # noqa - reported to the controller
                self.errors[tid] = e
        finally:
            sys.settrace(None)
            self.q.put(('done', tid))

    def run(self, fns):
        threads = [threading.Thread(target=self._worker, args=(i, f), daemon=True) for i, f in enumerate(fns)]
        for t in threads:
            t.start()
        runnable = set(range(self.n))
        pos = 0
        while runnable:
            tid = None
            while pos < len(self.schedule):
                cand = self.schedule[pos]
                pos += 1
                if cand in runnable:
                    tid = cand
                    break
            if tid is None:
                tid = min(runnable)
            self.trace.append(tid)
            self.go[tid].set()
            try:
                msg = self.q.get(timeout=self.timeout)
            except queue.Empty:
                raise SchedulerError('worker %d did not yield or finish within %ds' % (tid, self.timeout))
            if msg[1] != tid:
                raise SchedulerError('worker %d reported while worker %d was scheduled' % (msg[1], tid))
            if msg[0] == 'done':
                runnable.discard(tid)
        for t in threads:
            t.join(self.timeout)
        return self


def preemptions(trace):
    """number of switches away from a worker that had not finished (context switches - 1 per worker end)"""
    return sum(1 for a, b in zip(trace, trace[1:]) if a != b)


def bounded_schedules(segments, max_switches):
    """all schedules for len(segments) workers where worker i needs segments[i] resumptions, with at most
    max_switches changes of the running worker"""
    n = len(segments)
    out = []

    def rec(remaining, last, switches, acc):
        if all(r == 0 for r in remaining):
            out.append(list(acc))
            return
        for t in range(n):
            if remaining[t] == 0:
                continue
            sw = switches + (1 if (last is not None and t != last) else 0)
            if sw > max_switches:
                continue
            # run t for every possible positive number of segments (if t == last, only 1 more to avoid duplicates)
            if t == last:
                remaining[t] -= 1
                acc.append(t)
                rec(remaining, t, sw, acc)
                acc.pop()
                remaining[t] += 1
            else:
                remaining[t] -= 1
                acc.append(t)
                rec(remaining, t, sw, acc)
                acc.pop()
                remaining[t] += 1
    rec(list(segments), None, 0, [])
    return out
