"""Operation histories on hszinc.Grid in lock-step with a Python list (C14) and with a
scan-based id model (C15).  A history is a JSON-able list of ops; rows are built
fresh from small templates so that equal-but-not-identical dicts occur."""
import itertools

from .core import Violation, describe_exc

# row templates: id kinds str / int / Ref / Ref with display / none; duplicates of ids
TEMPLATES = [
    {'id': ['str', 'a'], 'v': 0},          # T0
    {'id': ['str', 'b']},                  # T1
    {'v': 2},                              # T2  no id
    {'id': ['int', 5], 'v': 3},            # T3
    {'id': ['ref', 'a', None]},            # T4  str(id) == '@a'
    {'id': ['ref', 'b', 'dis'], 'v': 5},   # T5
    {'id': ['str', 'a'], 'v': 9},          # T6  duplicate id of T0, other content
    {'id': ['str', '5']},                  # T7  same string form as the int id of T3
    {'id': ['int', 0], 'v': 1},            # T8  falsy id
    {'id': ['str', '']},                   # T9  empty id
    {'id': ['str', 'l'], 'v': ['list']},   # T10 holds a 3.0-only value: refused (ValueError) by a grid declared 2.0
    {'id': ['str', 'a'], 'v': 1e-7},       # T11 differs from T0 by less than 1e-6: another row all the same
    {'id': ['int', 0], 'v': True},         # T12 True where T8 has 1: another row all the same
]
BAD_ROWS = {'int': 5, 'none': None, 'pairs': [('a', 1)], 'str': 'row'}
KEYS = [['str', 'a'], ['str', 'b'], ['str', '5'], ['str', '@a'], ['str', 'zz'], ['ref', 'a', None],
        ['ref', 'b', 'dis'], ['ref', 'b', None], ['ref', 'zz', None], ['str', '@b'], ['str', '0'], ['str', '']]


def mk_id(spec):
    import hszinc
    if spec[0] == 'str':
        return spec[1]
    if spec[0] == 'int':
        return spec[1]
    return hszinc.Ref(spec[1], spec[2])


def mk_row(t):
    if isinstance(t, int):
        t = TEMPLATES[t]
    r = {}
    for k, v in t.items():
        r[k] = mk_id(v) if k == 'id' else ([1.0, 'x'] if v == ['list'] else v)
    return r


def is_v3_row(t):
    if isinstance(t, int):
        t = TEMPLATES[t]
    return isinstance(t, dict) and any(v == ['list'] for v in t.values())


def new_grid(auto=False, v2=False):
    import hszinc
    if v2:
        g = hszinc.Grid(version='2.0')
    elif auto == 'plain':
        g = hszinc.Grid()       # no declared version, still 2.0
    elif auto:
        # no declared version: a 3.0-only value in a row promotes the grid to 3.0, and slices must carry that
        g = hszinc.Grid()
        g.append({'v': [1.0, 'promotes to 3.0']})
        del g[0]
    else:
        g = hszinc.Grid(version='3.0')
    g.metadata['m'] = hszinc.MARKER
    g.metadata['s'] = 'meta'
    g.column['id'] = {}
    g.column['v'] = {'unit': 'x'}
    return g


def _sl(a):
    return slice(*a)


ODD_INDEX = {'none': None, 'text': '0', 'float': 1.0}


def _ix(i):
    """an insert position: an int, or the name of something that is no integer (list.insert refuses it with TypeError)"""
    return ODD_INDEX[i] if isinstance(i, str) else i


class Hist(object):
    """applies ops to (grid, list) and compares outcomes"""

    def __init__(self, case):
        self.case = case
        self.v2 = bool(case.get('v2', False))
        self.g = new_grid(case.get('auto', False), self.v2)
        self.l = []
        self.parents = []       # (grid, list model at the time) of grids we derived from; they must stay intact
        self.flags = set()
        for t in case.get('initial', []):
            if self.v2 and is_v3_row(t):
                continue
            r = mk_row(t)
            self.g.append(r)
            self.l.append(r)

    def fail(self, stage, step, detail, tag=None):
        raise Violation(stage, dict(self.case, step=step), detail, (tag,) if tag else ())

    def apply(self, step, op):
        g, l = self.g, self.l
        kind = op[0]
        real = model = None

        def both(fr, fm):
            try:
                rr = ('ok', fr())
            except Exception as e:  # noqa
                rr = ('raises', type(e).__name__, describe_exc(e), tuple(c.__name__ for c in type(e).__mro__))
            try:
                mm = ('ok', fm())
            except (TypeError, IndexError, ValueError) as e:
                mm = ('raises', type(e).__name__)
            return rr, mm

        def chk_dict(x):
            if not isinstance(x, dict):
                raise TypeError('row must be a dict')
            if self.v2 and any(isinstance(v, list) for v in x.values()):
                self.flags.add('refused')
                raise ValueError('3.0-only value in a grid declared 2.0')

        if kind in ('append', 'insert', 'setitem'):
            row = BAD_ROWS[op[-1]] if isinstance(op[-1], str) else mk_row(op[-1])
            if isinstance(op[-1], str):
                self.flags.add('refused')
            if kind == 'append':
                real, model = both(lambda: g.append(row), lambda: (chk_dict(row), l.append(row))[1])
            elif kind == 'insert':
                real, model = both(lambda: g.insert(_ix(op[1]), row), lambda: (chk_dict(row), l.insert(_ix(op[1]), row))[1])
                if isinstance(op[1], str):
                    self.flags.add('refused')
            else:
                def ms():
                    chk_dict(row)
                    l[op[1]] = row
                real, model = both(lambda: g.__setitem__(op[1], row), ms)
                self.flags.add('replace')
        elif kind in ('extend', 'iadd'):
            rows = [BAD_ROWS[t] if isinstance(t, str) else mk_row(t) for t in op[1]]
            if any(isinstance(t, str) for t in op[1]):
                self.flags.add('refused')

            def me():
                for r in rows:
                    chk_dict(r)
                    l.append(r)
            before_len = len(l)
            if kind == 'extend':
                # op[2] == 'iter': a one-shot iterable, as list.extend accepts
                arg = iter(rows) if (len(op) > 2 and op[2] == 'iter') else rows
                real, model = both(lambda: g.extend(arg), me)
            else:
                def ri():
                    r = g.__iadd__(iter(rows) if (len(op) > 2 and op[2] == 'iter') else rows)
                    if r is not g:
                        raise AssertionError('+= did not return the grid')
                real, model = both(ri, me)
            if real[0] == 'raises' and model[0] == 'raises' and model[1] not in real[3]:
                # several rows of one batch are refused for different reasons: which one is reported is not fixed
                for r in rows:
                    try:
                        chk_dict(r)
                    except (TypeError, ValueError) as e:
                        if type(e).__name__ in real[3]:
                            model = ('raises', type(e).__name__)
                            break
            if real[0] == 'raises' and model[0] == 'raises' and before_len <= len(g) <= len(l):
                # a refused multi-row extend: the property fixes the outcome of refused single-row operations only, so
                # the rows in front of the refused one may have been added (what a list fed one by one does) or not
                # (all-or-nothing); the model follows the grid, the invariants then compare row by row
                del l[len(g):]
        elif kind == 'del':
            real, model = both(lambda: g.__delitem__(op[1]), lambda: l.__delitem__(op[1]))
            self.flags.add('delete')
        elif kind == 'delslice':
            real, model = both(lambda: g.__delitem__(_sl(op[1])), lambda: l.__delitem__(_sl(op[1])))
            self.flags.add('delete')
        elif kind == 'pop':
            if len(op) > 1:
                real, model = both(lambda: id(g.pop(op[1])), lambda: id(l.pop(op[1])))
            else:
                real, model = both(lambda: id(g.pop()), lambda: id(l.pop()))
            self.flags.add('delete')
        elif kind == 'remove':
            t = mk_row(op[1])
            real, model = both(lambda: g.remove(t), lambda: l.remove(t))
            self.flags.add('delete')
        elif kind == 'rmw':
            # read-modify-write of a row: change its id in place and assign the same dict object back
            def rr():
                row = g[op[1]]
                row['id'] = mk_id(op[2])
                g[op[1]] = row
            def mr():
                row = l[op[1]]
                row['id'] = mk_id(op[2])
                l[op[1]] = row
            # the model list shares the row objects, so apply the mutation once, through the real grid, then assign
            def mr2():
                l[op[1]] = l[op[1]]
            real, model = both(rr, mr2)
            self.flags.add('replace')
            # the row dict is shared with the grids this one was derived from; changing an id in place needs an explicit
            # reindex() there (documented), so their id look-ups are no longer observed
            self.flags.add('shared-row-mutated')
        elif kind == 'reverse':
            real, model = both(lambda: g.reverse(), lambda: l.reverse())
            self.flags.add('replace')
        elif kind == 'clear':
            real, model = both(lambda: g.clear(), lambda: l.clear())
            self.flags.add('delete')
        elif kind == 'slice':
            def rs():
                s = g[_sl(op[1])]
                self.parents.append((g, list(l)))
                self.g = s
            def mslice():
                self.l = l[_sl(op[1])]
            real, model = both(rs, mslice)
            self.flags.add('derived')
            # a derived grid carries the version of its source as an explicit label
            self.v2 = str(self.g.version).startswith(('2', '1'))
        elif kind == 'filter':
            def rf():
                f = g.filter(op[1])
                self.parents.append((g, list(l)))
                self.g = f
            def mf():
                self.l = [r for r in l if 'v' in r]
            real, model = both(rf, mf)
            self.flags.add('derived')
            self.v2 = str(self.g.version).startswith(('2', '1'))
        else:
            raise ValueError(op)
        if real[0] != model[0] or (real[0] == 'raises' and model[1] not in real[3]) or (real[0] == 'ok' and real[1] != model[1]):
            self.fail('op-outcome', step, 'op %r: list model %r, grid %r' % (op, model, real[:3]), kind)
        if real[0] == 'raises':
            self.flags.add('refused')
        elif 'derived' in self.flags and kind not in ('slice', 'filter'):
            self.flags.add('mutation-after-derive')

    # ---- observations -------------------------------------------------
    def observe_parents(self, step, mode):
        """grids we sliced/filtered from are not touched afterwards: they must still look like their list"""
        cur = (self.g, self.l)
        try:
            for pg, pl in self.parents[-2:]:
                self.g, self.l = pg, pl
                if mode in ('list', 'both'):
                    if [id(r) for r in pg] != [id(r) for r in pl]:
                        self.fail('parent-changed', step, 'a grid that was sliced/filtered from changed afterwards')
                if mode in ('id', 'both') and 'shared-row-mutated' not in self.flags:
                    self.observe_ids(step)
        finally:
            self.g, self.l = cur

    def observe_list(self, step):
        import hszinc
        g, l = self.g, self.l
        if not isinstance(g, hszinc.Grid):
            self.fail('derived-type', step, 'derived object is %s' % type(g).__name__)
        n = len(l)
        try:
            if len(g) != n:
                self.fail('len', step, 'len %d, list %d' % (len(g), n))
            if [id(r) for r in g] != [id(r) for r in l]:
                self.fail('iteration', step, 'rows (by identity) differ from the list model: %r vs %r' % (list(g), l))
            for i in range(-n - 1, n + 1):
                try:
                    w = ('ok', id(l[i]))
                except IndexError:
                    w = ('raises', 'IndexError')
                try:
                    r = ('ok', id(g[i]))
                except IndexError:
                    r = ('raises', 'IndexError')
                if r != w:
                    self.fail('indexing', step, 'g[%d] -> %r, list -> %r' % (i, r, w))
            for sl in ((None, None), (1, None), (None, -1), (0, 2), (None, None, 2), (None, None, -1), (5, 9)):
                s = g[_sl(sl)]
                if not isinstance(s, hszinc.Grid):
                    self.fail('slice-type', step, 'g[%r] is %s' % (sl, type(s).__name__))
                if [id(r) for r in s] != [id(r) for r in l[_sl(sl)]]:
                    self.fail('slice-rows', step, 'g[%r] rows differ from list slice' % (sl,))
                if str(s.version) != str(g.version) or list(s.metadata.items()) != list(g.metadata.items()) \
                        or list(s.column.keys()) != list(g.column.keys()) \
                        or [list(c.items()) for c in s.column.values()] != [list(c.items()) for c in g.column.values()]:
                    self.fail('slice-header', step, 'g[%r] does not carry version/metadata/columns' % (sl,))
            for ti in range(len(TEMPLATES)):
                t = mk_row(ti)
                if (t in g) != (t in l):
                    self.fail('membership', step, 'row %r in grid: %r, in list: %r' % (t, t in g, t in l))
                if g.count(t) != l.count(t):
                    self.fail('count', step, 'count(%r) %d vs %d' % (t, g.count(t), l.count(t)))
                try:
                    w = ('ok', l.index(t))
                except ValueError:
                    w = ('raises', 'ValueError')
                try:
                    r = ('ok', g.index(t))
                except ValueError:
                    r = ('raises', 'ValueError')
                if r != w:
                    self.fail('index', step, 'index(%r) %r vs %r' % (t, r, w))
        except Violation:
            raise
        except Exception as e:  # noqa
            self.fail('observe-raises', step, 'reading the grid raised %s' % describe_exc(e), type(e).__name__)

    def observe_ids(self, step):
        g, l = self.g, self.l
        sentinel = object()
        rot = len(l) % len(KEYS)
        for kspec in KEYS[rot:] + KEYS[:rot]:
            key = mk_id(kspec)
            want = [r for r in l if 'id' in r and str(r['id']) == str(key)]
            for how in (('getitem', 'get') if (len(l) + KEYS.index(kspec)) % 2 else ('get', 'getitem')):
                try:
                    if how == 'getitem':
                        got = g[key]
                    else:
                        got = g.get(key, sentinel)
                        if got is sentinel:
                            raise KeyError(key)
                except KeyError:
                    if want:
                        self.fail('lookup-missing', step, '%s(%r): KeyError/default but a current row has that id' % (how, kspec), how)
                    continue
                except Exception as e:  # noqa
                    self.fail('lookup-raises', step, '%s(%r) raised %s' % (how, kspec, describe_exc(e)), type(e).__name__)
                if not any(got is r for r in want):
                    if any(got is r for r in l):
                        self.fail('lookup-wrong-row', step, '%s(%r) returned a row with another id: %r' % (how, kspec, got), how)
                    self.fail('lookup-stale', step, '%s(%r) returned a row that is not in the grid: %r' % (how, kspec, got), how)
        if g.get('no-such-id-anywhere') is not None:
            self.fail('lookup-default', step, 'get() of an unknown id without default is not None')


def check_history(case, mode, every_step=False):
    """case = {'initial': [template idx], 'ops': [op...]}; mode 'list' (C14) or 'id' (C15) or 'both'."""
    h = Hist(case)
    ops = case['ops']
    for step, op in enumerate(ops):
        h.apply(step, op)
        if every_step or step == len(ops) - 1:
            if mode in ('list', 'both'):
                h.observe_list(step)
            if mode in ('id', 'both'):
                h.observe_ids(step)
            if h.parents:
                h.observe_parents(step, mode)
    return h.flags


def alphabet(mode):
    ops = [
        ['append', 0], ['append', 3], ['append', 4], ['insert', 0, 1], ['insert', 1, 2], ['insert', -1, 6],
        ['extend', [1, 6]], ['iadd', [2]], ['setitem', 0, 1], ['setitem', -1, 3],
        ['del', 0], ['del', -1], ['delslice', [0, 2]], ['pop'], ['pop', 0], ['remove', 0],
        ['reverse'], ['clear'], ['slice', [1, None]], ['slice', [0, 1]],
    ]
    if mode == 'list':
        ops += [['append', 10], ['insert', 0, 10], ['setitem', 0, 10], ['append', 'int'], ['insert', 0, 'none'], ['setitem', 0, 'pairs'], ['extend', [0, 'int']],
                ['setitem', 7, 0], ['del', 7], ['del', -5], ['pop', -6], ['delslice', [None, None, 2]], ['delslice', [None, None, -1]],
                ['delslice', [2, None, -1]], ['extend', [1, 6], 'iter'], ['iadd', [2], 'iter'],
                ['slice', [None, None]], ['slice', [0, 1000]], ['remove', 11], ['remove', 12], ['append', 11], ['append', 12],
                ['insert', 'none', 1], ['insert', 'float', 3]]
    else:
        ops += [['append', 5], ['append', 7], ['filter', 'v'], ['setitem', 0, 4], ['extend', []], ['remove', 3],
                ['slice', [None, None]], ['append', 8], ['setitem', 0, 9], ['rmw', 0, ['str', 'zz']], ['rmw', -1, ['str', 'b']],
                ['insert', 'none', 1]]
    return ops


def enumerate_histories(mode, initial, depth, shard, of, auto=False, v2=False):
    al = alphabet(mode)
    for i, first in enumerate(al):
        if i % of != shard:
            continue
        for rest in itertools.product(al, repeat=depth - 1):
            yield {'initial': initial, 'auto': auto, 'v2': v2, 'ops': [first] + list(rest)}


def history_strategy(mode):
    from hypothesis import strategies as st
    t = st.integers(0, len(TEMPLATES) - 1)
    idx = st.integers(-6, 6)
    sl = st.tuples(st.none() | st.integers(-4, 5), st.none() | st.integers(-4, 5),
                   st.sampled_from([None, None, None, 1, 2, -1])).map(list)
    bad = st.sampled_from(sorted(BAD_ROWS))
    ops = [
        t.map(lambda x: ['append', x]), st.tuples(idx, t).map(lambda p: ['insert', p[0], p[1]]),
        st.lists(t, max_size=3).map(lambda x: ['extend', x]), st.lists(t, max_size=2).map(lambda x: ['iadd', x]),
        st.lists(t, max_size=3).map(lambda x: ['extend', x, 'iter']), st.lists(t, max_size=2).map(lambda x: ['iadd', x, 'iter']),
        st.tuples(idx, t).map(lambda p: ['setitem', p[0], p[1]]), idx.map(lambda i: ['del', i]),
        sl.map(lambda s: ['delslice', s]), st.just(['pop']), idx.map(lambda i: ['pop', i]),
        t.map(lambda x: ['remove', x]), st.just(['reverse']), st.just(['clear']), sl.map(lambda s: ['slice', s]),
        st.tuples(idx, st.sampled_from([['str', 'zz'], ['str', 'a'], ['int', 5], ['ref', 'a', None]])).map(lambda p: ['rmw', p[0], p[1]]),
    ]
    if mode in ('list', 'both'):
        ops += [bad.map(lambda b: ['append', b]), st.tuples(idx, bad).map(lambda p: ['insert', p[0], p[1]]),
                st.tuples(idx, bad).map(lambda p: ['setitem', p[0], p[1]]),
                st.tuples(st.sampled_from(sorted(ODD_INDEX)), t).map(lambda p: ['insert', p[0], p[1]]),
                st.tuples(st.lists(t, max_size=2), bad).map(lambda p: ['extend', p[0] + [p[1]]])]
    if mode in ('id', 'both'):
        ops += [st.just(['filter', 'v'])]
    return st.fixed_dictionaries({'initial': st.lists(t, max_size=4), 'auto': st.sampled_from([False, True, 'plain']), 'v2': st.booleans(),
                                  'ops': st.lists(st.one_of(*ops), min_size=1, max_size=50)})
