"""Independent ZINC reader and writer (no hszinc, no pyparsing) over the value model of vf.model.

The grammar is the one pinned in DESIGN.md Appendix A.  The reader is strict on the
points C04 treats as certain and liberal elsewhere (each liberal acceptance is recorded
in `Reader.liberal`).  The writer renders a model with a *spelling plan*: a list of small
integers consumed one per spelling decision (0 = the plain spelling), so a rendered
document is a pure function of (model, plan) and shrinks towards plain spellings.
"""
import collections
import datetime
import math
import re


class ZincRefError(Exception):
    def __init__(self, msg, pos):
        Exception.__init__(self, '%s at offset %d' % (msg, pos))
        self.msg = msg
        self.pos = pos


ID_RE = re.compile(r'[a-z][a-zA-Z0-9_]*')
WORD_RE = re.compile(r'[A-Za-z][A-Za-z0-9_]*')
XSTR_TYPE_RE = re.compile(r'^[A-Z][a-zA-Z0-9_]*$')
NUM_RE = re.compile(r'-?[0-9][0-9_]*(\.[0-9][0-9_]*)?([eE][+-]?[0-9][0-9_]*)?')
DATE_RE = re.compile(r'(\d{4})-(\d{2})-(\d{2})')
TIME_RE = re.compile(r'(\d{2}):(\d{2}):(\d{2})(\.(\d+))?')
OFFSET_RE = re.compile(r'[zZ]|([+-])(\d{2}):(\d{2})')
TZNAME_RE = re.compile(r'[A-Z][a-zA-Z0-9_\-+]*')
REFCHARS = set('abcdefghijklmnopqrstuvwxyzABCDEFGHIJKLMNOPQRSTUVWXYZ0123456789_:-.~')
COORD_RE = re.compile(r'C\((-?[0-9]*(?:\.[0-9]+)?),(-?[0-9]*(?:\.[0-9]+)?)\)')
VERSION_RE = re.compile(r'^\d+(\.\d+)*[^\d\n]?[^\n]*$')
STR_ESC = {'b': '\b', 'f': '\f', 'n': '\n', 'r': '\r', 't': '\t', '"': '"', '\\': '\\', '$': '$'}
URI_ESC = {'\\': '\\', '`': '`'}
URI_ESC_LIBERAL = set(':/?#[]@&=;')


def is_unit_char(c):
    return ('a' <= c <= 'z') or ('A' <= c <= 'Z') or c in '%_/$' or ord(c) >= 0x80


def ver_ge3(ver):
    m = re.match(r'^(\d+)(?:\.(\d+))?', ver)
    return (int(m.group(1)), int(m.group(2) or 0)) >= (3, 0)


class Reader(object):
    def __init__(self, text):
        self.s = text
        self.i = 0
        self.liberal = collections.Counter()
        self.physical_rows = 0

    # -- low level
    def err(self, msg):
        raise ZincRefError(msg, self.i)

    def eof(self):
        return self.i >= len(self.s)

    def peek(self, n=1):
        return self.s[self.i:self.i + n]

    def starts(self, x):
        return self.s.startswith(x, self.i)

    def expect(self, x):
        if not self.starts(x):
            self.err('expected %r, found %r' % (x, self.peek(len(x) + 3)))
        self.i += len(x)

    def sp(self):
        n = 0
        while self.peek() == ' ':
            self.i += 1
            n += 1
        return n

    def nl(self):
        if self.starts('\r\n'):
            self.i += 2
            return True
        if self.starts('\n'):
            self.i += 1
            return True
        return False

    def at_nl(self):
        return self.starts('\n') or self.starts('\r\n')

    def match(self, rx):
        m = rx.match(self.s, self.i)
        if m:
            self.i = m.end()
        return m

    # -- document / grid
    def document(self):
        grids = []
        if self.s == '':
            return grids
        while True:
            grids.append(self.grid(False))
            if self.eof():
                break
            if not self.nl():
                self.err('expected an empty line between grids')
            while self.nl():
                self.liberal['extra-blank-line'] += 1
            if self.eof():
                self.liberal['trailing-blank-line'] += 1
                break
        return grids

    def grid(self, nested):
        self.expect('ver:')
        if self.peek() != '"':
            self.err('version must be a quoted string')
        ver = self.string()
        if not VERSION_RE.match(ver):
            self.err('not a version number: %r' % ver)
        v3 = ver_ge3(ver)
        meta = []
        if self.peek() == ' ':
            self.sp()
            if not self.at_nl() and not self.eof():
                meta = self.tags(v3)
        self.sp()
        if not self.nl():
            self.err('expected end of header line')
        cols = [self.col(v3)]
        while True:
            save = self.i
            self.sp()
            if self.peek() == ',':
                self.i += 1
                self.sp()
                cols.append(self.col(v3))
            else:
                self.i = save
                break
        names = [c[0] for c in cols]
        if len(set(names)) != len(names):
            self.err('duplicate column name')
        self.sp()
        had_nl = self.nl()
        if not had_nl:
            if self.eof() and not nested:
                self.liberal['no-final-newline'] += 1
                return ['grid', ver, meta, cols, []]
            if nested and self.starts('>>'):
                self.liberal['no-newline-before->>'] += 1
                return ['grid', ver, meta, cols, []]
            self.err('expected end of column line')
        rows = []
        while True:
            if nested:
                if self.starts('>>'):
                    break
                if self.eof():
                    self.err('unterminated nested grid')
            else:
                if self.eof() or self.at_nl():
                    break
            cells = [self.cell(v3, nested)]
            while True:
                save = self.i
                self.sp()
                if self.peek() == ',':
                    self.i += 1
                    self.sp()
                    cells.append(self.cell(v3, nested))
                else:
                    self.i = save
                    break
            self.sp()
            if len(cells) != len(cols):
                self.err('row has %d cells, grid has %d columns' % (len(cells), len(cols)))
            rows.append([[n, v] for n, v in zip(names, cells) if v[0] != 'null'])
            if self.nl():
                continue
            if self.eof() and not nested:
                self.liberal['no-final-newline'] += 1
                break
            if nested and self.starts('>>'):
                self.liberal['no-newline-before->>'] += 1
                break
            self.err('expected end of row, found %r' % self.peek(8))
        return ['grid', ver, meta, cols, rows]

    def col(self, v3):
        m = self.match(ID_RE)
        if not m:
            self.err('illegal column name %r' % self.peek(8))
        name = m.group(0)
        meta = []
        save = self.i
        if self.peek() == ' ':
            self.sp()
            if ID_RE.match(self.s, self.i):
                meta = self.tags(v3)
            else:
                self.i = save
        return [name, meta]

    def cell(self, v3, nested):
        c = self.peek()
        if c == '' or c in ',\n\r' or (nested and self.starts('>>')):
            return ['null']
        if c == ' ':
            # blanks belong to the separators; a cell made of blanks only is empty
            save = self.i
            self.sp()
            c2 = self.peek()
            self.i = save
            if c2 == '' or c2 in ',\n\r':
                return ['null']
            self.err('unexpected blank inside a cell')
        return self.value(v3)

    def tags(self, v3):
        out = []
        seen = set()
        while True:
            m = self.match(ID_RE)
            if not m:
                self.err('illegal tag name %r' % self.peek(8))
            name = m.group(0)
            if name in seen:
                self.err('duplicate tag %r' % name)
            seen.add(name)
            save = self.i
            nsp = self.sp()
            if self.peek() == ':':
                if nsp:
                    self.liberal['blank-before-colon'] += 1
                self.i += 1
                if self.sp():
                    self.liberal['blank-after-colon'] += 1
                out.append([name, self.value(v3)])
            else:
                self.i = save
                out.append([name, ['marker']])
            save = self.i
            n = self.sp()
            if n and ID_RE.match(self.s, self.i):
                continue
            self.i = save
            return out

    # -- values
    def value(self, v3):
        c = self.peek()
        if c == '"':
            return ['str', self.string()]
        if c == '`':
            return ['uri', self.uri()]
        if c == '@':
            return self.ref()
        if c == '[':
            if not v3:
                self.err('list under a pre-3.0 version')
            return self.list_(v3)
        if c == '{':
            if not v3:
                self.err('dict under a pre-3.0 version')
            return self.dict_(v3)
        if self.starts('<<'):
            if not v3:
                self.err('nested grid under a pre-3.0 version')
            self.i += 2
            if self.nl():
                self.liberal['newline-after-<<'] += 1
            g = self.grid(True)
            self.sp()
            self.expect('>>')
            return g
        if self.starts('-INF'):
            self.i += 4
            return ['num', float('-inf')]
        if c == '-' or c.isdigit():
            return self.numeric()
        if self.starts('C(') and self.peek(3) != 'C("':
            m = self.match(COORD_RE)
            if not m:
                self.err('malformed coordinate')
            return ['coord', float(m.group(1) or 0), float(m.group(2) or 0)]
        if self.starts('Bin(') and (not v3 or self.peek(5) != 'Bin("'):
            if v3:
                self.err('2.0 Bin literal under a 3.0 version')
            self.i += 4
            j = self.s.find(')', self.i)
            if j < 0:
                self.err('unterminated Bin')
            mime = self.s[self.i:j]
            for ch in mime:
                if not (0x20 <= ord(ch) <= 0x7f) or ch in '()':
                    self.err('illegal character in Bin')
            if not mime:
                self.err('empty Bin')
            self.i = j + 1
            return ['bin', mime]
        m = WORD_RE.match(self.s, self.i)
        if m:
            w = m.group(0)
            if self.s.startswith('(', m.end()):
                if not v3:
                    self.err('XStr under a pre-3.0 version')
                self.i = m.end() + 1
                if self.peek() != '"':
                    self.err('XStr payload must be a string')
                payload = self.string()
                self.expect(')')
                if w == 'Bin':
                    return ['bin', payload]
                if not XSTR_TYPE_RE.match(w):
                    self.liberal['xstr-type-lowercase'] += 1
                return ['xstr', w, payload]
            kw = {'N': ['null'], 'M': ['marker'], 'R': ['remove'], 'T': ['bool', True], 'F': ['bool', False],
                  'INF': ['num', float('inf')], 'NaN': ['num', float('nan')]}
            if w == 'NA':
                if not v3:
                    self.err('NA under a pre-3.0 version')
                self.i = m.end()
                return ['na']
            if w in kw:
                self.i = m.end()
                return kw[w]
        self.err('unexpected token %r' % self.peek(10))

    def string(self):
        self.expect('"')
        out = []
        while True:
            if self.eof():
                self.err('unterminated string')
            c = self.s[self.i]
            if c == '"':
                self.i += 1
                return u''.join(out)
            if ord(c) < 0x20:
                self.err('raw control character U+%04X inside a string' % ord(c))
            if c == '\\':
                e = self.s[self.i + 1:self.i + 2]
                if e in STR_ESC:
                    out.append(STR_ESC[e])
                    self.i += 2
                elif e == 'u':
                    h = self.s[self.i + 2:self.i + 6]
                    if not re.match(r'^[0-9a-fA-F]{4}$', h):
                        self.err('malformed \\u escape')
                    out.append(chr(int(h, 16)))
                    self.i += 6
                else:
                    self.err('illegal string escape \\%s' % e)
                continue
            out.append(c)
            self.i += 1

    def uri(self):
        self.expect('`')
        out = []
        while True:
            if self.eof():
                self.err('unterminated URI')
            c = self.s[self.i]
            if c == '`':
                self.i += 1
                return u''.join(out)
            if ord(c) < 0x20:
                self.err('raw control character U+%04X inside a URI' % ord(c))
            if c == '\\':
                e = self.s[self.i + 1:self.i + 2]
                if e in URI_ESC:
                    out.append(URI_ESC[e])
                    self.i += 2
                elif e == 'u':
                    h = self.s[self.i + 2:self.i + 6]
                    if not re.match(r'^[0-9a-fA-F]{4}$', h):
                        self.err('malformed \\u escape')
                    out.append(chr(int(h, 16)))
                    self.i += 6
                elif e in URI_ESC_LIBERAL:
                    self.liberal['uri-escape-' + e] += 1
                    out.append('\\' + e if e == '#' else e)
                    self.i += 2
                else:
                    self.err('illegal URI escape \\%s' % e)
                continue
            out.append(c)
            self.i += 1

    def ref(self):
        self.expect('@')
        j = self.i
        while j < len(self.s) and self.s[j] in REFCHARS:
            j += 1
        if j == self.i:
            self.err('empty Ref name')
        name = self.s[self.i:j]
        self.i = j
        dis = None
        if self.starts(' "'):
            self.i += 1
            dis = self.string()
        return ['ref', name, dis]

    def numeric(self):
        s = self.s
        m = DATE_RE.match(s, self.i)
        if m and not s[m.end():m.end() + 1].isdigit():
            y, mo, d = int(m.group(1)), int(m.group(2)), int(m.group(3))
            if s[m.end():m.end() + 1] in ('T', 't'):
                t = TIME_RE.match(s, m.end() + 1)
                if not t:
                    self.err('malformed date-time')
                o = OFFSET_RE.match(s, t.end())
                if not o:
                    self.err('date-time without offset')
                self.i = o.end()
                us = self._frac(t.group(5))
                try:
                    local = datetime.datetime(y, mo, d, int(t.group(1)), int(t.group(2)), int(t.group(3)), us)
                except ValueError:
                    self.err('date-time out of range')
                if o.group(1):
                    off = (int(o.group(2)) * 3600 + int(o.group(3)) * 60) * (1 if o.group(1) == '+' else -1)
                else:
                    off = 0
                tzname = None
                if self.peek() == ' ':
                    z = TZNAME_RE.match(s, self.i + 1)
                    if z:
                        tzname = z.group(0)
                        self.i = z.end()
                utc = local - datetime.timedelta(seconds=off)
                from .model import dt_text
                return ['dt', dt_text(utc), off, tzname]
            self.i = m.end()
            try:
                datetime.date(y, mo, d)
            except ValueError:
                self.err('date out of range')
            return ['date', y, mo, d]
        t = TIME_RE.match(s, self.i)
        if t:
            self.i = t.end()
            h, mi, se = int(t.group(1)), int(t.group(2)), int(t.group(3))
            if h > 23 or mi > 59 or se > 59:
                self.err('time out of range')
            return ['time', h, mi, se, self._frac(t.group(5))]
        m = NUM_RE.match(s, self.i)
        if not m:
            self.err('malformed number %r' % self.peek(8))
        self.i = m.end()
        val = float(m.group(0).replace('_', ''))
        j = self.i
        while j < len(s) and is_unit_char(s[j]):
            j += 1
        if j > self.i:
            unit = s[self.i:j]
            self.i = j
            return ['qty', val, unit]
        return ['num', val]

    def _frac(self, digits):
        if not digits:
            return 0
        if len(digits) > 6:
            self.liberal['fraction-beyond-microseconds'] += 1
        return int(digits[:6].ljust(6, '0'))

    def list_(self, v3):
        self.expect('[')
        self.sp()
        items = []
        if self.peek() == ']':
            self.i += 1
            return ['list', items]
        while True:
            items.append(self.value(v3))
            self.sp()
            if self.peek() == ',':
                self.i += 1
                self.sp()
                if self.peek() == ']':
                    self.i += 1
                    return ['list', items]
                continue
            if self.peek() == ']':
                self.i += 1
                return ['list', items]
            self.err('expected , or ] in list')

    def dict_(self, v3):
        self.expect('{')
        self.sp()
        if self.peek() == '}':
            self.i += 1
            return ['dict', []]
        tags = self.tags(v3)
        self.sp()
        self.expect('}')
        return ['dict', tags]


def read_document(text):
    r = Reader(text)
    return r.document(), r


def read_scalar(text, ver='3.0'):
    r = Reader(text)
    v = r.value(ver_ge3(ver))
    if not r.eof():
        r.err('trailing text after scalar')
    return v, r


# ==========================================================================
# writer

class Plan(object):
    """spelling decisions: ints consumed in order (wrapping); 0 is always the plain spelling"""

    def __init__(self, choices=()):
        self.c = list(choices)
        self.k = 0
        self.used = collections.Counter()

    def pick(self, n, label):
        if not self.c or n <= 1:
            return 0
        v = self.c[self.k % len(self.c)] % n
        self.k += 1
        if v:
            self.used[label] += 1
        return v


def float_literal(v):
    if isinstance(v, bool):
        raise ValueError('bool is not a number')
    if isinstance(v, int):
        return str(v)
    if math.isnan(v):
        return 'NaN'
    if math.isinf(v):
        return 'INF' if v > 0 else '-INF'
    return repr(v)


class Writer(object):
    def __init__(self, plan=None, eol='\n'):
        self.p = plan or Plan()
        self.eol = eol

    def sep(self, left_empty_at_line_start=False, right_empty_at_line_end=False):
        # (a line never starts or ends with a blank: a line made of blanks only would be
        # ambiguous with the empty line that separates grids)
        before = 0 if left_empty_at_line_start else self.p.pick(3, 'blank-before-comma')
        after = 0 if right_empty_at_line_end else self.p.pick(3, 'blank-after-comma')
        return ' ' * before + ',' + ' ' * after

    def string(self, s, label='str'):
        out = ['"']
        for ch in s:
            o = ord(ch)
            named = {'\b': '\\b', '\f': '\\f', '\n': '\\n', '\r': '\\r', '\t': '\\t', '"': '\\"', '\\': '\\\\'}
            if ch in named:
                k = self.p.pick(3, label + '-esc-alt')
                out.append([named[ch], '\\u%04x' % o, '\\u%04X' % o][k])
            elif o < 0x20:
                out.append(['\\u%04x', '\\u%04X'][self.p.pick(2, label + '-esc-case')] % o)
            elif ch == '$':
                out.append(['\\$', '$', '\\u0024'][self.p.pick(3, label + '-dollar')])
            elif o <= 0xffff:
                k = self.p.pick(4, label + '-uescape')
                out.append(ch if k < 2 else (['\\u%04x', '\\u%04X'][k - 2] % o))
            else:
                out.append(ch)
        out.append('"')
        return u''.join(out)

    def uri(self, s):
        out = ['`']
        for ch in s:
            o = ord(ch)
            if ch == '`':
                out.append(['\\`', '\\u0060'][self.p.pick(2, 'uri-esc-alt')])
            elif ch == '\\':
                out.append(['\\\\', '\\u005c', '\\u005C'][self.p.pick(3, 'uri-esc-alt')])
            elif o < 0x20:
                raise ValueError('C0 control in URI is outside the conformance domain')
            elif o <= 0xffff:
                k = self.p.pick(4, 'uri-uescape')
                out.append(ch if k < 2 else (['\\u%04x', '\\u%04X'][k - 2] % o))
            else:
                out.append(ch)
        out.append('`')
        return u''.join(out)

    def frac(self, us):
        if us == 0:
            return ['', '.0', '.000', '.000000'][self.p.pick(4, 'fraction-digits')]
        full = '%06d' % us
        trimmed = full.rstrip('0')
        alts = [trimmed]
        if len(trimmed) < 6:
            alts.append(full)
            if len(trimmed) < 5:
                alts.append(trimmed + '0')
        return '.' + alts[self.p.pick(len(alts), 'fraction-digits')]

    def value(self, m, ver):
        k = m[0]
        if k == 'null':
            return 'N'
        if k == 'marker':
            return 'M'
        if k == 'remove':
            return 'R'
        if k == 'na':
            return 'NA'
        if k == 'bool':
            return 'T' if m[1] else 'F'
        if k == 'num':
            return m[2] if len(m) > 2 else float_literal(m[1])
        if k == 'qty':
            return (m[3] if len(m) > 3 else float_literal(m[1])) + m[2]
        if k == 'str':
            return self.string(m[1])
        if k == 'uri':
            return self.uri(m[1])
        if k == 'ref':
            return '@' + m[1] + ('' if m[2] is None else ' ' + self.string(m[2], 'refdis'))
        if k == 'bin':
            return ('Bin(%s)' % m[1]) if not ver_ge3(ver) else 'Bin(%s)' % self.string(m[1], 'bin')
        if k == 'xstr':
            return '%s(%s)' % (m[1], self.string(m[2], 'xstr'))
        if k == 'date':
            return '%04d-%02d-%02d' % (m[1], m[2], m[3])
        if k == 'time':
            return '%02d:%02d:%02d%s' % (m[1], m[2], m[3], self.frac(m[4]))
        if k == 'dt':
            from .model import dt_parse
            local = dt_parse(m[1]) + datetime.timedelta(seconds=m[2])
            t = 'Tt'[self.p.pick(2, 'lowercase-t')]
            if m[2] == 0:
                off = ['Z', 'z', '+00:00'][self.p.pick(3, 'utc-offset-spelling')]
            else:
                a = abs(m[2])
                off = '%s%02d:%02d' % ('+' if m[2] > 0 else '-', a // 3600, (a % 3600) // 60)
            s = '%04d-%02d-%02dT%02d:%02d:%02d' % (local.year, local.month, local.day, local.hour, local.minute, local.second)
            s = s.replace('T', t) + self.frac(local.microsecond) + off
            if m[3] is not None:
                s += ' ' + m[3]
            return s
        if k == 'coord':
            f = ['%.6f', '%.7f', '%.9f'][self.p.pick(3, 'coord-digits')]
            return 'C(%s,%s)' % (f % m[1], f % m[2])
        if k == 'list':
            if not m[1]:
                return ['[]', '[ ]', '[  ]'][self.p.pick(3, 'empty-list')]
            body = self.value(m[1][0], ver)
            for x in m[1][1:]:
                body += self.sep() + self.value(x, ver)
            lead = ' ' * self.p.pick(3, 'blank-inside-brackets')
            trail_comma = ''
            if self.p.pick(2, 'trailing-comma'):
                trail_comma = ' ' * self.p.pick(2, 'blank-before-comma') + ','
            return '[' + lead + body + trail_comma + ' ' * self.p.pick(3, 'blank-inside-brackets') + ']'
        if k == 'dict':
            if not m[1]:
                return ['{}', '{ }'][self.p.pick(2, 'empty-dict')]
            parts = []
            for kk, v in m[1]:
                parts.append(self.tag(kk, v, ver))
            body = parts[0]
            for x in parts[1:]:
                body += ' ' * (1 + self.p.pick(2, 'dict-double-blank')) + x
            return '{' + ' ' * self.p.pick(3, 'blank-inside-braces') + body + ' ' * self.p.pick(3, 'blank-inside-braces') + '}'
        if k == 'grid':
            return '<<' + self.grid(m) + '>>'
        raise ValueError('cannot write %r' % (m,))

    def tag(self, k, v, ver):
        if v[0] == 'marker' and not self.p.pick(2, 'marker-explicit'):
            return k
        return k + ':' + self.value(v, ver)

    def grid(self, m):
        _, ver, meta, cols, rows = m
        lines = []
        head = 'ver:' + Writer(Plan()).string(ver)      # (the label is a ZINC string: quotes and backslashes are escaped)
        for kk, v in meta:
            head += ' ' + self.tag(kk, v, ver)
        lines.append(head)
        cl = ''
        for i, (name, cm) in enumerate(cols):
            if i:
                cl += self.sep()
            cl += name
            for kk, v in cm:
                cl += ' ' + self.tag(kk, v, ver)
        lines.append(cl)
        names = [c[0] for c in cols]
        for row in rows:
            d = dict((c, v) for c, v in row)
            cells = []
            for n in names:
                v = d.get(n, ['null'])
                if v[0] == 'null':
                    cells.append('' if (len(names) >= 2 and self.p.pick(2, 'empty-cell')) else 'N')
                else:
                    cells.append(self.value(v, ver))
            line = cells[0]
            for i in range(1, len(cells)):
                line += self.sep(right_empty_at_line_end=(i == len(cells) - 1 and cells[i] == '')) + cells[i]
            lines.append(line)
        return self.eol.join(lines) + self.eol

    def document(self, grids, final_newline=True):
        parts = [self.grid(g) for g in grids]
        txt = parts[0] if parts else ''
        for g in parts[1:]:
            # grids are separated by one empty line; more empty lines are tolerated by readers
            txt += self.eol * (1 + self.p.pick(3, 'extra-blank-lines-between-grids') // 2) + g
        if not final_newline and txt.endswith(self.eol):
            txt = txt[:-len(self.eol)]
        return txt


def write_document(grids, choices=(), eol='\n', final_newline=True):
    w = Writer(Plan(choices), eol)
    return w.document(grids, final_newline), w.p


def write_scalar(m, ver='3.0', choices=(), eol='\n'):
    w = Writer(Plan(choices), eol)
    return w.value(m, ver), w.p
