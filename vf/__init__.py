"""vf - property-based testing / fuzzing machinery for widesky/hszinc (see /verif/DESIGN.md)."""
