"""Independent Haystack-JSON reader and writer over the value model (DESIGN.md Appendix B).
No hszinc code is used.  The reader is strict about type prefixes and lexical forms (C06);
the writer renders a model under a spelling plan (C05) - see zinc_ref.Plan."""
import datetime
import math
import re

from .zinc_ref import Plan, float_literal, ver_ge3

NUM_RE = re.compile(r'^(-?[0-9]+(?:\.[0-9]+)?(?:[eE][+-]?[0-9]+)?)(?: (.+))?$', re.S)
REF_RE = re.compile(r'^([a-zA-Z0-9_:\-.~]+)(?: (.*))?$', re.S)
DATE_RE = re.compile(r'^(\d{4})-(\d{2})-(\d{2})$')
TIME_RE = re.compile(r'^(\d{2}):(\d{2})(?::(\d{2})(?:\.(\d+))?)?$')
DT_RE = re.compile(r'^(\d{4})-(\d{2})-(\d{2})T(\d{2}):(\d{2}):(\d{2})(?:\.(\d+))?([zZ]|[+-]\d{2}:\d{2})(?: ([A-Z][A-Za-z0-9_\-+]*))?$')
COORD_RE = re.compile(r'^(-?[0-9]+(?:\.[0-9]+)?),(-?[0-9]+(?:\.[0-9]+)?)$')
XSTR_RE = re.compile(r'^([A-Za-z][A-Za-z0-9_]*):(.*)$', re.S)
ID_RE = re.compile(r'^[a-z][a-zA-Z0-9_]*$')


class JsonRefError(Exception):
    pass


def is_grid_obj(o):
    # (a value with all three of meta, cols, rows is a nested grid; the generators never build such a dict)
    return isinstance(o, dict) and {'meta', 'cols', 'rows'} <= set(o)


def read_value(x, v3, path='', strict=True):
    def err(msg):
        raise JsonRefError('%s: %s (%r)' % (path or '.', msg, x if not isinstance(x, (dict, list)) else type(x).__name__))
    if x is None:
        return ['null']
    if isinstance(x, bool):
        return ['bool', x]
    if isinstance(x, (int, float)):
        return ['num', x]
    if isinstance(x, list):
        if not v3:
            err('list under a pre-3.0 version')
        return ['list', [read_value(e, v3, '%s[%d]' % (path, i), strict) for i, e in enumerate(x)]]
    if isinstance(x, dict):
        if not v3:
            err('object value under a pre-3.0 version')
        if is_grid_obj(x):
            return read_grid(x, path, strict)
        for k in x:
            if not ID_RE.match(k):
                err('illegal tag name %r' % k)
        return ['dict', [[k, read_value(v, v3, path + '.' + k, strict)] for k, v in x.items()]]
    if not isinstance(x, str):
        err('unexpected JSON type')
    if x[1:2] != ':':
        return ['str', x]       # bare string
    p, body = x[0], x[2:]
    if p == 'm':
        if body:
            err('marker with payload')
        return ['marker']
    if p == 'z':
        if body:
            err('NA with payload')
        if not v3:
            err('NA under a pre-3.0 version')
        return ['na']
    if p == '-':
        if body:
            err('remove with payload')
        return ['remove']
    if p == 'x':
        if body == '':
            return ['remove']
        m = XSTR_RE.match(body)
        if not m:
            err('malformed XStr')
        if not v3:
            err('XStr under a pre-3.0 version')
        return ['xstr', m.group(1), m.group(2)]
    if p == 'n':
        if body == 'INF':
            return ['num', float('inf')]
        if body == '-INF':
            return ['num', float('-inf')]
        if body == 'NaN':
            return ['num', float('nan')]
        m = NUM_RE.match(body)
        if not m:
            err('malformed number')
        v = float(m.group(1))
        if m.group(2) is not None:
            return ['qty', v, m.group(2)]
        return ['num', v]
    if p == 's':
        return ['str', body]
    if p == 'u':
        return ['uri', body]
    if p == 'b':
        if not body:
            err('empty Bin')
        return ['bin', body]
    if p == 'r':
        m = REF_RE.match(body)
        if not m:
            err('malformed Ref')
        return ['ref', m.group(1), m.group(2)]
    if p == 'd':
        m = DATE_RE.match(body)
        if not m:
            err('malformed date')
        try:
            datetime.date(int(m.group(1)), int(m.group(2)), int(m.group(3)))
        except ValueError:
            err('date out of range')
        return ['date', int(m.group(1)), int(m.group(2)), int(m.group(3))]
    if p == 'h':
        m = TIME_RE.match(body)
        if not m:
            err('malformed time')
        us = int((m.group(4) or '')[:6].ljust(6, '0')) if m.group(4) else 0
        h, mi, s = int(m.group(1)), int(m.group(2)), int(m.group(3) or 0)
        if h > 23 or mi > 59 or s > 59:
            err('time out of range')
        return ['time', h, mi, s, us]
    if p == 't':
        m = DT_RE.match(body)
        if not m:
            err('malformed date-time')
        us = int(m.group(7)[:6].ljust(6, '0')) if m.group(7) else 0
        try:
            local = datetime.datetime(int(m.group(1)), int(m.group(2)), int(m.group(3)), int(m.group(4)), int(m.group(5)),
                                      int(m.group(6)), us)
        except ValueError:
            err('date-time out of range')
        o = m.group(8)
        off = 0 if o in 'zZ' else (int(o[1:3]) * 3600 + int(o[4:6]) * 60) * (1 if o[0] == '+' else -1)
        from .model import dt_text
        return ['dt', dt_text(local - datetime.timedelta(seconds=off)), off, m.group(9)]
    if p == 'c':
        m = COORD_RE.match(body)
        if not m:
            err('malformed coordinate')
        return ['coord', float(m.group(1)), float(m.group(2))]
    if strict:
        err('unknown type prefix %r' % p)
    return ['str', x]


def read_grid(o, path='', strict=True):
    def err(msg):
        raise JsonRefError('%s: %s' % (path or 'grid', msg))
    if not isinstance(o, dict):
        err('grid must be a JSON object')
    if strict and not ({'meta', 'cols'} <= set(o) and set(o) <= {'meta', 'cols', 'rows'}):
        err('grid keys %r' % sorted(o))
    meta_o = o.get('meta')
    if not isinstance(meta_o, dict) or not isinstance(meta_o.get('ver'), str):
        err('meta.ver must be a string')
    ver = meta_o['ver']
    v3 = ver_ge3(ver)
    meta = []
    for k, v in meta_o.items():
        if k == 'ver':
            continue
        if not ID_RE.match(k):
            err('illegal tag name %r' % k)
        meta.append([k, read_value(v, v3, path + '.meta.' + k, strict)])
    cols = []
    if not isinstance(o.get('cols'), list):
        err('cols must be an array')
    for i, c in enumerate(o['cols']):
        if not isinstance(c, dict) or not isinstance(c.get('name'), str) or not ID_RE.match(c['name']):
            err('column %d needs a legal name' % i)
        cm = []
        for k, v in c.items():
            if k == 'name':
                continue
            if not ID_RE.match(k):
                err('illegal tag name %r' % k)
            cm.append([k, read_value(v, v3, '%s.cols[%d].%s' % (path, i, k), strict)])
        cols.append([c['name'], cm])
    names = [c[0] for c in cols]
    if len(set(names)) != len(names):
        err('duplicate column')
    rows = []
    rows_o = o.get('rows')
    if rows_o is None:
        if strict and 'rows' not in o:
            pass
        rows_o = []
    if not isinstance(rows_o, list):
        err('rows must be an array')
    for i, r in enumerate(rows_o):
        if not isinstance(r, dict):
            err('row %d must be an object' % i)
        row = []
        for k, v in r.items():
            if k not in names:
                err('row %d has a key %r that is not a column' % (i, k))
            mv = read_value(v, v3, '%s.rows[%d].%s' % (path, i, k), strict)
            if mv[0] != 'null':
                row.append([k, mv])
        order = dict((n, j) for j, n in enumerate(names))
        row.sort(key=lambda kv: order[kv[0]])
        rows.append(row)
    return ['grid', ver, meta, cols, rows]


def read_document(o, strict=True):
    if isinstance(o, list):
        return [read_grid(g, 'doc[%d]' % i, strict) for i, g in enumerate(o)]
    return [read_grid(o, '', strict)]


# ==========================================================================
# writer

class Writer(object):
    def __init__(self, plan=None):
        self.p = plan or Plan()

    def frac(self, us):
        if us == 0:
            return ['', '.0', '.000'][self.p.pick(3, 'fraction-digits')]
        full = '%06d' % us
        trimmed = full.rstrip('0')
        # (more than six digits are legal as long as they denote the same time: zero padding)
        alts = [trimmed] + ([full] if len(trimmed) < 6 else []) + [full + '0', full + '000']
        return '.' + alts[self.p.pick(len(alts), 'fraction-digits')]

    def value(self, m, ver):
        k = m[0]
        if k == 'null':
            return None
        if k == 'marker':
            return 'm:'
        if k == 'na':
            return 'z:'
        if k == 'remove':
            return ['x:', '-:'][self.p.pick(2, 'remove-spelling')] if not ver_ge3(ver) else ['-:', 'x:'][self.p.pick(2, 'remove-spelling')]
        if k == 'bool':
            return bool(m[1])
        if k == 'num':
            v = m[1]
            if len(m) > 2:
                if m[2] == 'raw':
                    self.p.used['raw-json-number'] += 1
                    return v
                return 'n:' + m[2]
            if isinstance(v, float) and math.isnan(v):
                return 'n:NaN'
            if isinstance(v, float) and math.isinf(v):
                return 'n:INF' if v > 0 else 'n:-INF'
            return 'n:' + float_literal(v)
        if k == 'qty':
            return 'n:%s %s' % (m[3] if len(m) > 3 else float_literal(m[1]), m[2])
        if k == 'str':
            s = m[1]
            if s[1:2] != ':' and self.p.pick(2, 'bare-string'):
                return s
            return 's:' + s
        if k == 'uri':
            return 'u:' + m[1]
        if k == 'bin':
            return 'b:' + m[1]
        if k == 'ref':
            return 'r:' + m[1] + ('' if m[2] is None else ' ' + m[2])
        if k == 'xstr':
            return 'x:%s:%s' % (m[1], m[2])
        if k == 'date':
            return 'd:%04d-%02d-%02d' % (m[1], m[2], m[3])
        if k == 'time':
            if m[3] == 0 and m[4] == 0 and self.p.pick(2, 'time-without-seconds'):
                return 'h:%02d:%02d' % (m[1], m[2])
            return 'h:%02d:%02d:%02d%s' % (m[1], m[2], m[3], self.frac(m[4]))
        if k == 'dt':
            from .model import dt_parse
            local = dt_parse(m[1]) + datetime.timedelta(seconds=m[2])
            if m[2] == 0:
                off = ['Z', '+00:00'][self.p.pick(2, 'utc-offset-spelling')]
            else:
                a = abs(m[2])
                off = '%s%02d:%02d' % ('+' if m[2] > 0 else '-', a // 3600, (a % 3600) // 60)
            s = 't:%04d-%02d-%02dT%02d:%02d:%02d%s%s' % (local.year, local.month, local.day, local.hour, local.minute,
                                                          local.second, self.frac(local.microsecond), off)
            if m[3] is not None:
                s += ' ' + m[3]
            return s
        if k == 'coord':
            f = ['%.6f', '%.7f', '%.9f'][self.p.pick(3, 'coord-digits')]
            return 'c:%s,%s' % (f % m[1], f % m[2])
        if k == 'list':
            return [self.value(x, ver) for x in m[1]]
        if k == 'dict':
            return dict((kk, self.value(v, ver)) for kk, v in m[1])
        if k == 'grid':
            return self.grid(m, nested=True)
        raise ValueError('cannot write %r' % (m,))

    def _place(self, key, val, items, label):
        """insert (key, val) at a drawn position among items (list of pairs); tags keep their relative order"""
        pos = self.p.pick(len(items) + 1, label)
        return items[:pos] + [(key, val)] + items[pos:]

    def grid(self, m, nested=False):
        _, ver, meta, cols, rows = m
        mo = self._place('ver', ver, [(k, self.value(v, ver)) for k, v in meta], 'ver-position')
        co = []
        for name, cm in cols:
            co.append(dict(self._place('name', name, [(k, self.value(v, ver)) for k, v in cm], 'name-position')))
        names = [c[0] for c in cols]
        ro = []
        for row in rows:
            d = dict((c, v) for c, v in row)
            r = []
            for n in names:
                if n in d:
                    r.append((n, self.value(d[n], ver)))
                elif self.p.pick(2, 'explicit-null-cell'):
                    r.append((n, None))
            if self.p.pick(2, 'row-key-order'):
                r.reverse()
            ro.append(dict(r))
        parts = [('meta', dict(mo)), ('cols', co)]
        rows_mode = self.p.pick(3, 'rows-absent-or-null') if (not rows and not nested) else 0
        if rows_mode == 0:
            parts.append(('rows', ro))
        elif rows_mode == 1:
            parts.append(('rows', None))
        k = self.p.pick(3, 'top-key-order')
        if k == 1:
            parts.reverse()
        elif k == 2:
            parts = parts[1:] + parts[:1]
        return dict(parts)

    def document(self, grids, as_array):
        if as_array:
            return [self.grid(g) for g in grids]
        return self.grid(grids[0])


def write_document(grids, choices=(), as_array=False):
    w = Writer(Plan(choices))
    return w.document(grids, as_array), w.p


def write_value(m, ver='3.0', choices=()):
    w = Writer(Plan(choices))
    return w.value(m, ver), w.p
