"""Neutral value model (JSON-able tagged lists, no hszinc classes), conversion to and
from the objects hszinc works with, and a kind-strict comparator with diff paths.

  ['null'] ['marker'] ['na'] ['remove'] ['bool', b]
  ['num', v]            plain number (python int or float)
  ['qty', v, unit]      Quantity
  ['str', s] ['uri', s] ['bin', mime] ['ref', name, dis|None] ['xstr', type, payload]
  ['date', y, m, d] ['time', h, m, s, us]
  ['dt', 'YYYY-MM-DDTHH:MM:SS.ffffff' (UTC, naive text), offset_seconds, tzname|None]
  ['coord', lat, lng]
  ['list', [v...]]  ['dict', [[k, v]...]]
  ['grid', ver, [[k, v]...], [[col, [[k, v]...]]...], [ [[col, v]...] ... ]]   rows list only non-null cells
"""
import datetime
import math

EPOCH = datetime.datetime(1970, 1, 1)
NULL = ['null']
MARKER = ['marker']
NA = ['na']
REMOVE = ['remove']

V3_ONLY = ('na', 'list', 'dict', 'grid', 'xstr')
SHARED_TZ = None     # when a dict: fixed-offset tzinfo objects are taken from / added to it instead of being built afresh


def dt_text(naive_utc):
    return naive_utc.strftime('%Y-%m-%dT%H:%M:%S.') + '%06d' % naive_utc.microsecond if naive_utc.year >= 1000 else \
        '%04d' % naive_utc.year + naive_utc.strftime('-%m-%dT%H:%M:%S.') + '%06d' % naive_utc.microsecond


def dt_parse(text):
    d, t = text.split('T')
    y, mo, da = d.split('-')
    hms, us = t.split('.')
    h, mi, s = hms.split(':')
    return datetime.datetime(int(y), int(mo), int(da), int(h), int(mi), int(s), int(us))


# --------------------------------------------------------------------------
# model -> hszinc objects

def from_model(m):
    import hszinc
    import pytz
    k = m[0]
    if k == 'null':
        return None
    if k == 'marker':
        return hszinc.MARKER
    if k == 'na':
        return hszinc.NA
    if k == 'remove':
        return hszinc.REMOVE
    if k == 'bool':
        return bool(m[1])
    if k == 'num':
        return m[1]
    if k == 'qty':
        return hszinc.Quantity(m[1], m[2])
    if k == 'str':
        return m[1]
    if k == 'uri':
        return hszinc.Uri(m[1])
    if k == 'bin':
        return hszinc.Bin(m[1])
    if k == 'ref':
        return hszinc.Ref(m[1], m[2])
    if k == 'xstr':
        return hszinc.XStr(m[1], m[2])
    if k == 'date':
        return datetime.date(m[1], m[2], m[3])
    if k == 'time':
        return datetime.time(m[1], m[2], m[3], m[4])
    if k == 'dt':
        utc = pytz.utc.localize(dt_parse(m[1]))
        if m[3] is not None:
            from hszinc import zoneinfo
            return utc.astimezone(pytz.timezone(zoneinfo.get_tz_map()[m[3]]))
        if SHARED_TZ is not None:
            # one long-lived tzinfo object per offset, the way a caller's constant or pytz.FixedOffset behaves
            if m[2] not in SHARED_TZ:
                SHARED_TZ[m[2]] = datetime.timezone(datetime.timedelta(seconds=m[2]))
            return utc.astimezone(SHARED_TZ[m[2]])
        return utc.astimezone(datetime.timezone(datetime.timedelta(seconds=m[2])))
    if k == 'naive-datetime':
        return datetime.datetime.fromisoformat(m[1])
    if k == 'coord':
        return hszinc.Coordinate(m[1], m[2])
    if k == 'list':
        return [from_model(x) for x in m[1]]
    if k == 'dict':
        return dict((kk, from_model(v)) for kk, v in m[1])
    if k == 'grid':
        return grid_from_model(m)
    raise ValueError('bad model %r' % (m,))


def grid_from_model(m, version_given=True, style=None):
    """Build the grid the way a user would.  Several documented ways exist and all must behave alike, so the style is
    varied deterministically with the shape of the grid:
      0  item stores on MetadataObjects, tags and columns inserted back to front with add_item(index=0)
      1  plain dicts as column metadata (README style), rows via extend() with their keys in reverse column order
      2  everything through the Grid constructor
      3  as 0, but without a declared version when the content itself promotes the grid to 3.0"""
    import hszinc
    _, ver, meta, cols, rows = m
    if style is None:
        style = (len(cols) + len(rows) + len(meta)) % 4
    if style == 3 and not (version_given and ver == '3.0' and has_v3(m)):
        style = 0
    declared = ver if (version_given and style != 3) else None
    if style == 2:
        g = hszinc.Grid(version=declared,
                        metadata=dict((kk, from_model(v)) for kk, v in meta),
                        columns=[(name, [(kk, from_model(v)) for kk, v in cmeta]) for name, cmeta in cols])
    elif style == 3:
        # no declared version: every value goes through a validating store, which promotes the grid to 3.0
        g = hszinc.Grid(columns=[(name, []) for name, _ in cols])
        for kk, v in meta:
            g.metadata[kk] = from_model(v)
        for name, cmeta in cols:
            for kk, v in cmeta:
                g.column[name][kk] = from_model(v)
    else:
        g = hszinc.Grid(version=declared)
        if style == 1:
            for kk, v in meta:
                g.metadata[kk] = from_model(v)
        else:
            for kk, v in reversed(meta):
                g.metadata.add_item(kk, from_model(v), index=0)
        for name, cmeta in (cols if style == 1 else reversed(cols)):
            if style == 1:
                g.column[name] = dict((kk, from_model(v)) for kk, v in cmeta)
            else:
                mo = hszinc.MetadataObject()
                for kk, v in cmeta:
                    mo[kk] = from_model(v)
                g.column.add_item(name, mo, index=0)
    if style == 1 and rows:
        g.extend([dict((c, from_model(v)) for c, v in reversed(row)) for row in rows])
    else:
        for row in rows:
            g.append(dict((c, from_model(v)) for c, v in row))
    return g


# --------------------------------------------------------------------------
# hszinc objects -> model (kind strict)

def to_model(v):
    import hszinc
    from hszinc import zoneinfo
    if v is None:
        return ['null']
    if v is hszinc.MARKER:
        return ['marker']
    if v is hszinc.NA:
        return ['na']
    if v is hszinc.REMOVE:
        return ['remove']
    t = type(v)
    if t is bool:
        return ['bool', v]
    if t is int or t is float:
        return ['num', v]
    if isinstance(v, hszinc.Quantity):
        return ['qty', v.value, v.unit]
    if t is str:
        return ['str', v]
    if t is hszinc.Uri:
        return ['uri', str.__str__(v)]
    if t is hszinc.Bin:
        return ['bin', str.__str__(v)]
    if t is hszinc.Ref:
        return ['ref', v.name, v.value if v.has_value else None]
    if isinstance(v, hszinc.XStr):
        return ['xstr', v.encoding, v.data_to_string()]
    if isinstance(v, datetime.datetime):
        off = v.utcoffset()
        if off is None:
            return ['naive-datetime', v.isoformat()]
        utc = (v.replace(tzinfo=None) - off)
        zone = getattr(v.tzinfo, 'zone', None)
        name = zoneinfo.get_tz_rmap().get(zone) if zone is not None else None
        return ['dt', dt_text(utc), int(off.total_seconds()), name]
    if t is datetime.date:
        return ['date', v.year, v.month, v.day]
    if t is datetime.time:
        if v.tzinfo is not None:
            return ['aware-time', v.isoformat()]
        return ['time', v.hour, v.minute, v.second, v.microsecond]
    if t is hszinc.Coordinate:
        return ['coord', v.latitude, v.longitude]
    if isinstance(v, list):
        return ['list', [to_model(x) for x in v]]
    if isinstance(v, hszinc.Grid):
        return grid_to_model(v)
    if isinstance(v, dict) or isinstance(v, hszinc.sortabledict.SortableDict):
        return ['dict', [[kk, to_model(x)] for kk, x in v.items()]]
    return ['unknown:%s' % t.__name__, repr(v)]


def grid_to_model(g):
    meta = [[kk, to_model(v)] for kk, v in g.metadata.items()]
    cols = []
    for name, cm in g.column.items():
        cols.append([name, [[kk, to_model(v)] for kk, v in cm.items()]])
    names = [c[0] for c in cols]
    rows = []
    for r in g:
        row = []
        for c in names:
            if c in r and r[c] is not None:
                row.append([c, to_model(r[c])])
        extra = [c for c in r if c not in names and r[c] is not None]
        for c in extra:
            row.append(['<extra>' + str(c), to_model(r[c])])
        rows.append(row)
    return ['grid', str(g.version), meta, cols, rows]


# --------------------------------------------------------------------------
# comparator

def num_eq(a, b, tol):
    if isinstance(a, bool) or isinstance(b, bool):
        return False
    if not isinstance(a, (int, float)) or not isinstance(b, (int, float)):
        return False
    def _f(x):
        try:
            return float(x)
        except OverflowError:      # a whole number beyond the float range
            return float('inf') if x > 0 else float('-inf')
    if isinstance(a, int) and isinstance(b, int):
        return a == b
    fa, fb = _f(a), _f(b)
    if math.isnan(fa) or math.isnan(fb):
        return math.isnan(fa) and math.isnan(fb)
    if a == b:
        return True
    if tol and math.isfinite(fa) and math.isfinite(fb):
        return abs(fa - fb) <= 5e-7 + 1e-12 * abs(fa)
    return False


def diff(a, b, tol=False, path='', dt_by_instant=False):
    """None when equal, else 'path: explanation'.  a = expected model, b = observed."""
    if a[0] != b[0]:
        return '%s: kind %s != %s (%r vs %r)' % (path or '.', a[0], b[0], _short(a), _short(b))
    k = a[0]
    if k in ('null', 'marker', 'na', 'remove'):
        return None
    if k == 'num':
        return None if num_eq(a[1], b[1], tol) else '%s: num %r != %r' % (path, a[1], b[1])
    if k == 'qty':
        if not num_eq(a[1], b[1], tol):
            return '%s: qty value %r != %r' % (path, a[1], b[1])
        return None if a[2] == b[2] else '%s: unit %r != %r' % (path, a[2], b[2])
    if k == 'coord':
        if num_eq(a[1], b[1], True) and num_eq(a[2], b[2], True):
            return None
        return '%s: coord %r != %r' % (path, a[1:], b[1:])
    if k == 'dt':
        if a[1] != b[1]:
            return '%s: instant %s != %s' % (path, a[1], b[1])
        if a[2] != b[2]:
            return '%s: utc offset %s != %s' % (path, a[2], b[2])
        if not dt_by_instant and a[3] != b[3]:
            return '%s: zone name %r != %r' % (path, a[3], b[3])
        return None
    if k == 'list':
        if len(a[1]) != len(b[1]):
            return '%s: list length %d != %d' % (path, len(a[1]), len(b[1]))
        for i, (x, y) in enumerate(zip(a[1], b[1])):
            d = diff(x, y, tol, '%s[%d]' % (path, i), dt_by_instant)
            if d:
                return d
        return None
    if k == 'dict':
        return _diff_items(a[1], b[1], tol, path + '{}', dt_by_instant, ordered=False)
    if k == 'grid':
        if a[1] != b[1]:
            return '%s: version %r != %r' % (path, a[1], b[1])
        d = _diff_items(a[2], b[2], tol, path + '.meta', dt_by_instant, ordered=True)
        if d:
            return d
        if [c[0] for c in a[3]] != [c[0] for c in b[3]]:
            return '%s: columns %r != %r' % (path, [c[0] for c in a[3]], [c[0] for c in b[3]])
        for (n, ma), (_, mb) in zip(a[3], b[3]):
            d = _diff_items(ma, mb, tol, '%s.col[%s]' % (path, n), dt_by_instant, ordered=True)
            if d:
                return d
        if len(a[4]) != len(b[4]):
            return '%s: row count %d != %d' % (path, len(a[4]), len(b[4]))
        for i, (ra, rb) in enumerate(zip(a[4], b[4])):
            d = _diff_items(ra, rb, tol, '%s.rows[%d]' % (path, i), dt_by_instant, ordered=False)
            if d:
                return d
        return None
    # str, uri, bin, ref, xstr, bool, date, time: exact
    if a != b:
        return '%s: %s %r != %r' % (path, k, _short(a), _short(b))
    return None


def _diff_items(ia, ib, tol, path, dti, ordered):
    ka, kb = [x[0] for x in ia], [x[0] for x in ib]
    if ordered:
        if ka != kb:
            return '%s: keys %r != %r' % (path, ka, kb)
    elif sorted(ka) != sorted(kb) or len(set(kb)) != len(kb):
        return '%s: keys %r != %r' % (path, sorted(ka), sorted(kb))
    db = dict((x[0], x[1]) for x in ib)
    for kk, va in ia:
        d = diff(va, db[kk], tol, '%s.%s' % (path, kk), dti)
        if d:
            return d
    return None


def _short(m):
    s = repr(m)
    return s if len(s) < 120 else s[:117] + '...'


def normalise(m):
    """Drop explicit nulls from rows (a missing key and None are the same cell)."""
    if m[0] == 'grid':
        return ['grid', m[1], [[k, normalise(v)] for k, v in m[2]],
                [[n, [[k, normalise(v)] for k, v in cm]] for n, cm in m[3]],
                [[[c, normalise(v)] for c, v in row if v[0] != 'null'] for row in m[4]]]
    if m[0] == 'list':
        return ['list', [normalise(x) for x in m[1]]]
    if m[0] == 'dict':
        return ['dict', [[k, normalise(v)] for k, v in m[1]]]
    return m


def kinds(m, pos='top', out=None):
    """set of (position, kind) pairs occurring in a model value."""
    if out is None:
        out = set()
    out.add((pos, m[0]))
    if m[0] == 'list':
        for x in m[1]:
            kinds(x, 'list', out)
    elif m[0] == 'dict':
        for _, x in m[1]:
            kinds(x, 'dict', out)
    elif m[0] == 'grid':
        p = 'nested-' if pos != 'top' else ''
        for _, x in m[2]:
            kinds(x, p + 'gridmeta', out)
        for _, cm in m[3]:
            for _, x in cm:
                kinds(x, p + 'colmeta', out)
        for row in m[4]:
            for _, x in row:
                kinds(x, p + 'cell', out)
    return out


def depth(m):
    if m[0] == 'list':
        return 1 + max([depth(x) for x in m[1]] + [0])
    if m[0] == 'dict':
        return 1 + max([depth(x) for _, x in m[1]] + [0])
    if m[0] == 'grid':
        vals = [v for _, v in m[2]] + [v for _, cm in m[3] for _, v in cm] + [v for r in m[4] for _, v in r]
        return 1 + max([depth(x) for x in vals] + [0])
    return 0


def has_v3(m):
    return any(k in V3_ONLY for _, k in kinds(m) if True) if m[0] != 'grid' else \
        any(k in V3_ONLY for (p, k) in kinds(m) if not (p == 'top' and k == 'grid'))


def raw_snapshot(g):
    """what a caller can observe of a grid without any normalisation: key sets and value identities of every row dict,
    metadata and column items (used by purity / 'source left untouched' oracles: a None-valued key added to a row is a change)"""
    return (str(g.version),
            [(k, id(v)) for k, v in g.metadata.items()],
            [(c, [(k, id(v)) for k, v in cm.items()]) for c, cm in g.column.items()],
            [(id(r), sorted((str(k), id(v)) for k, v in r.items())) for r in g])
