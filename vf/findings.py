"""known_findings.txt handling.  The file is committed and never written at run time.

Record format (two lines per record, '#' lines are comments):
  open: property=<id> key=<feature-key> <what fails>
    witness: {"stage": "...", "case": <replay case>}
  fixed: property=<id> <commit> key=<feature-key> <what failed>
    witness: {"stage": "...", "case": <replay case>}

open  : the generators of that property's check switch the feature class `key`
        off (counted in evidence); the witness is re-run, and if it still
        fails a `KNOWN-FINDING:` line is printed.  Exit code unaffected.
fixed : suppresses nothing.  The witness is a regression case: if it fails the
        check reports a VIOLATION.
"""
import json
import os
import re

from .core import VERIF_DIR

PATH = os.path.join(VERIF_DIR, 'known_findings.txt')
_HEAD = re.compile(r'^(open|fixed): property=(\S+) (?:([0-9a-f]{7,40}) )?key=(\S+) (.*)$')


def load(prop=None):
    out = []
    if not os.path.exists(PATH):
        return out
    cur = None
    with open(PATH, encoding='utf-8') as f:
        for line in f:
            line = line.rstrip('\n')
            if not line.strip() or line.startswith('#'):
                continue
            m = _HEAD.match(line)
            if m:
                cur = {'status': m.group(1), 'property': m.group(2), 'commit': m.group(3),
                       'key': m.group(4), 'what': m.group(5), 'witness': None}
                out.append(cur)
            elif line.strip().startswith('witness:') and cur is not None:
                cur['witness'] = json.loads(line.strip()[len('witness:'):])
            else:
                raise ValueError('known_findings.txt: cannot parse line %r' % line)
    if prop is not None:
        out = [e for e in out if e['property'] == prop]
    return out
